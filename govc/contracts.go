package main

import (
	"fmt"
	"go/ast"
	"go/parser"
	"go/token"
	"os"
	"regexp"
	"strconv"
	"strings"
)

// ---------------------------------------------------------------------------
// Contract file (/repo/verif_contracts.go, build tag verif, comments only).
//
//   //@ func (s *Stump) add(adds []Hash) (hashes []Hash, positions []uint64, destroyed []uint64)
//   //@   requires ...
//   //@   ensures  ...
//   //@   split forestRows 0 63
//   //@   loop 1: invariant ...
//   //@   loop 1: decreases ...
//   //@   loop 1: unroll 65
//   //@   modifies dels
//   //@   trusted
//   //@ lemma child_parent(p uint64, fr uint8)
//   //@   requires ...
//   //@   ensures Parent(LeftChild(p, fr), fr) == p
//
// Names in the header are bound positionally to the real parameters/results.
// Clauses with kinds govc does not know (rac, preserves, fresh, lock, acquires ...)
// are kept verbatim in Other for the other tools.
// ---------------------------------------------------------------------------

type LoopSpec struct {
	Invariants []Clause
	Decreases  *Clause
	DecreasesLex []Clause // lexicographic measure (decreases e1, e2, ...)
	Unroll     int
	NoMerge    bool // continue from every exit of the loop separately (the code after the loop is executed once per exit path)
	Uses       []Clause // instances of separately proved lemmas, assumed at the loop head
	Assumes    []Clause // facts assumed (never asserted) at the loop head; each is listed in the report as an assumption
}

type Clause struct {
	Text string
	Expr ast.Expr
	Line int
}

type SplitSpec struct {
	Var    string
	Expr   ast.Expr
	Lo, Hi int
}

type Contract struct {
	Key      string // "Parent", "Stump.add", "lemma:child_parent"
	IsLemma  bool
	Header   string
	Decl     *ast.FuncDecl // parsed header
	Params   []string      // header names, positional (receiver first if any)
	Results  []string
	Requires []Clause
	Ensures  []Clause
	Splits   []SplitSpec
	Loops    map[int]*LoopSpec
	Foreach  map[int]*LoopSpec // invariants of the k-th X.ForEach(func literal) call, executed as a loop over an unknown number of elements
	Modifies []string
	Trusted  bool
	Pure     bool     // does not modify the pointees of its pointer parameters (checked: frame obligation)
	Tier     string   // "" (always) or "thorough" (too slow for the quick tier)
	Ghosts   []string // locals that postconditions may mention (zero value where not in scope)
	Other    []string // verbatim clauses for other tools
	Line     int
}

type ContractFile struct {
	ByKey map[string]*Contract
	Order []string
}

// parseTier is set from the -tier flag before the contracts are read.
var parseTier = "quick"

var reLoop = regexp.MustCompile(`^loop\s+(\d+)\s*:\s*(\w+)\s*(.*)$`)
var reForeach = regexp.MustCompile(`^foreach\s+(\d+)\s*:\s*invariant\s+(.*)$`)

func parseContractFile(path string) (*ContractFile, error) {
	data, err := os.ReadFile(path)
	if err != nil {
		return nil, err
	}
	cf := &ContractFile{ByKey: map[string]*Contract{}}
	var cur *Contract
	lines := strings.Split(string(data), "\n")
	for i := 0; i < len(lines); i++ {
		ln := strings.TrimSpace(lines[i])
		if !strings.HasPrefix(ln, "//@") {
			continue
		}
		body := strings.TrimSpace(strings.TrimPrefix(ln, "//@"))
		lineNo := i + 1
		// continuation lines: trailing backslash
		for strings.HasSuffix(body, "\\") && i+1 < len(lines) {
			i++
			nx := strings.TrimSpace(lines[i])
			nx = strings.TrimSpace(strings.TrimPrefix(nx, "//@"))
			body = strings.TrimSpace(strings.TrimSuffix(body, "\\")) + " " + nx
		}
		if body == "" {
			continue
		}
		// strip trailing comment  " // ..."
		if k := strings.Index(body, " // "); k >= 0 {
			body = strings.TrimSpace(body[:k])
		}
		// "thorough <clause>": the clause belongs to the thorough tier only (its obligations need a solver answer that is
		// not comfortably inside the quick limit on a loaded machine)
		if strings.HasPrefix(body, "thorough ") {
			if parseTier != "thorough" {
				continue
			}
			body = strings.TrimSpace(strings.TrimPrefix(body, "thorough "))
		}
		if strings.HasPrefix(body, "func ") || strings.HasPrefix(body, "lemma ") {
			c, err := parseHeader(body)
			if err != nil {
				return nil, fmt.Errorf("%s:%d: %v", path, lineNo, err)
			}
			c.Line = lineNo
			if _, dup := cf.ByKey[c.Key]; dup {
				return nil, fmt.Errorf("%s:%d: duplicate contract for %s", path, lineNo, c.Key)
			}
			cf.ByKey[c.Key] = c
			cf.Order = append(cf.Order, c.Key)
			cur = c
			continue
		}
		if cur == nil {
			continue // free-standing directive (type ..., cone ...) for other tools
		}
		kind, rest := splitWord(body)
		switch kind {
		case "requires", "ensures":
			e, err := parseCExpr(rest)
			if err != nil {
				return nil, fmt.Errorf("%s:%d: %v in %q", path, lineNo, err, rest)
			}
			cl := Clause{Text: rest, Expr: e, Line: lineNo}
			if kind == "requires" {
				cur.Requires = append(cur.Requires, cl)
			} else {
				cur.Ensures = append(cur.Ensures, cl)
			}
		case "split":
			f := strings.Fields(rest)
			if len(f) < 3 {
				return nil, fmt.Errorf("%s:%d: split EXPR LO HI", path, lineNo)
			}
			lo, _ := strconv.Atoi(f[len(f)-2])
			hi, _ := strconv.Atoi(f[len(f)-1])
			ex := strings.Join(f[:len(f)-2], " ")
			pe, err := parseCExpr(ex)
			if err != nil {
				return nil, fmt.Errorf("%s:%d: %v in %q", path, lineNo, err, ex)
			}
			cur.Splits = append(cur.Splits, SplitSpec{ex, pe, lo, hi})
		case "loop":
			m := reLoop.FindStringSubmatch(body)
			if m == nil {
				return nil, fmt.Errorf("%s:%d: bad loop clause", path, lineNo)
			}
			n, _ := strconv.Atoi(m[1])
			ls := cur.Loops[n]
			if ls == nil {
				ls = &LoopSpec{}
				cur.Loops[n] = ls
			}
			switch m[2] {
			case "invariant", "decreases", "use", "assume":
				if m[2] == "decreases" && topLevelIndex(m[3], ",") >= 0 {
					rest := m[3]
					for {
						k := topLevelIndex(rest, ",")
						part := rest
						if k >= 0 {
							part = rest[:k]
						}
						pe, err := parseCExpr(part)
						if err != nil {
							return nil, fmt.Errorf("%s:%d: %v in %q", path, lineNo, err, part)
						}
						ls.DecreasesLex = append(ls.DecreasesLex, Clause{Text: strings.TrimSpace(part), Expr: pe, Line: lineNo})
						if k < 0 {
							break
						}
						rest = rest[k+1:]
					}
					cl := Clause{Text: m[3], Expr: ls.DecreasesLex[0].Expr, Line: lineNo}
					ls.Decreases = &cl
					continue
				}
				e, err := parseCExpr(m[3])
				if err != nil {
					return nil, fmt.Errorf("%s:%d: %v in %q", path, lineNo, err, m[3])
				}
				cl := Clause{Text: m[3], Expr: e, Line: lineNo}
				if m[2] == "invariant" {
					ls.Invariants = append(ls.Invariants, cl)
				} else if m[2] == "use" {
					ls.Uses = append(ls.Uses, cl)
				} else if m[2] == "assume" {
					ls.Assumes = append(ls.Assumes, cl)
				} else {
					ls.Decreases = &cl
				}
			case "paths":
				if strings.TrimSpace(m[3]) != "separate" {
					return nil, fmt.Errorf("%s:%d: loop N: paths separate", path, lineNo)
				}
				ls.NoMerge = true
			case "unroll":
				k, err := strconv.Atoi(strings.TrimSpace(m[3]))
				if err != nil {
					return nil, fmt.Errorf("%s:%d: unroll N", path, lineNo)
				}
				ls.Unroll = k
			default:
				return nil, fmt.Errorf("%s:%d: unknown loop clause %q", path, lineNo, m[2])
			}
		case "foreach":
			m := reForeach.FindStringSubmatch(body)
			if m == nil {
				return nil, fmt.Errorf("%s:%d: foreach N: invariant E", path, lineNo)
			}
			n, _ := strconv.Atoi(m[1])
			e, err := parseCExpr(m[2])
			if err != nil {
				return nil, fmt.Errorf("%s:%d: %v in %q", path, lineNo, err, m[2])
			}
			if cur.Foreach == nil {
				cur.Foreach = map[int]*LoopSpec{}
			}
			if cur.Foreach[n] == nil {
				cur.Foreach[n] = &LoopSpec{}
			}
			cur.Foreach[n].Invariants = append(cur.Foreach[n].Invariants, Clause{Text: m[2], Expr: e, Line: lineNo})
		case "modifies":
			for _, p := range strings.Split(rest, ",") {
				cur.Modifies = append(cur.Modifies, strings.TrimSpace(p))
			}
		case "trusted":
			cur.Trusted = true
		case "pure":
			cur.Pure = true
		case "tier":
			cur.Tier = strings.TrimSpace(rest)
		case "ghost":
			for _, p := range strings.Split(rest, ",") {
				cur.Ghosts = append(cur.Ghosts, strings.TrimSpace(p))
			}
		default:
			cur.Other = append(cur.Other, body)
		}
	}
	return cf, nil
}

func splitWord(s string) (string, string) {
	s = strings.TrimSpace(s)
	k := strings.IndexAny(s, " \t")
	if k < 0 {
		return s, ""
	}
	return s[:k], strings.TrimSpace(s[k:])
}

func parseHeader(h string) (*Contract, error) {
	c := &Contract{Header: h, Loops: map[int]*LoopSpec{}}
	src := h
	if strings.HasPrefix(h, "lemma ") {
		c.IsLemma = true
		src = "func " + strings.TrimPrefix(h, "lemma ")
	}
	f, err := parser.ParseFile(token.NewFileSet(), "hdr.go", "package p\n"+src+" {}", 0)
	if err != nil {
		return nil, fmt.Errorf("bad header %q: %v", h, err)
	}
	fd := f.Decls[0].(*ast.FuncDecl)
	c.Decl = fd
	name := fd.Name.Name
	if fd.Recv != nil && len(fd.Recv.List) == 1 {
		r := fd.Recv.List[0]
		tn := recvTypeName(r.Type)
		name = tn + "." + name
		if len(r.Names) == 1 {
			c.Params = append(c.Params, r.Names[0].Name)
		} else {
			c.Params = append(c.Params, "_recv")
		}
	}
	if c.IsLemma {
		c.Key = "lemma:" + name
	} else {
		c.Key = name
	}
	for _, p := range fd.Type.Params.List {
		if len(p.Names) == 0 {
			c.Params = append(c.Params, "_")
		}
		for _, n := range p.Names {
			c.Params = append(c.Params, n.Name)
		}
	}
	if fd.Type.Results != nil {
		for _, p := range fd.Type.Results.List {
			if len(p.Names) == 0 {
				c.Results = append(c.Results, "_")
			}
			for _, n := range p.Names {
				c.Results = append(c.Results, n.Name)
			}
		}
	}
	return c, nil
}

func recvTypeName(e ast.Expr) string {
	switch t := e.(type) {
	case *ast.StarExpr:
		return recvTypeName(t.X)
	case *ast.Ident:
		return t.Name
	case *ast.IndexExpr:
		return recvTypeName(t.X)
	}
	return "?"
}

// ---------------------------------------------------------------------------
// Contract expression syntax = Go expressions plus
//     a ==> b                       (right associative, lowest precedence)
//     forall i in lo..hi: body      (i ranges over int, lo <= i < hi)
//     exists i in lo..hi: body
// They are rewritten to the Go-parsable calls implies_(a,b), forall_(i,lo,hi,body), exists_(...).
// ---------------------------------------------------------------------------

// expandMacros: sortedStrict(E) stands for the pairwise form of "E is strictly ascending" (the pairwise form needs no
// induction to be used: any two indexes can be compared directly).
func expandMacros(s string) string {
	for n := 0; ; n++ {
		k := strings.Index(s, "sortedStrict(")
		if k < 0 {
			return s
		}
		open := k + len("sortedStrict")
		j := matchParen(s, open)
		if j < 0 {
			return s
		}
		e := strings.TrimSpace(s[open+1 : j])
		a, b := fmt.Sprintf("sa%d__", n), fmt.Sprintf("sb%d__", n)
		s = s[:k] + fmt.Sprintf("(forall %s in 0..len(%s): forall %s in 0..len(%s): %s < %s ==> %s[%s] < %s[%s])", a, e, b, e, a, b, e, a, e, b) + s[j+1:]
	}
}

func parseCExpr(s string) (ast.Expr, error) {
	r, err := rewriteCExpr(expandMacros(strings.TrimSpace(s)))
	if err != nil {
		return nil, err
	}
	return parser.ParseExpr(r)
}

func rewriteCExpr(s string) (string, error) {
	s = strings.TrimSpace(s)
	// quantifier at the head
	for _, q := range []string{"forall", "exists", "each"} {
		if strings.HasPrefix(s, q+" ") {
			rest := strings.TrimSpace(s[len(q):])
			colon := topLevelIndex(rest, ":")
			if colon < 0 {
				return "", fmt.Errorf("%s without ':'", q)
			}
			head, body := rest[:colon], rest[colon+1:]
			parts := strings.SplitN(head, " in ", 2)
			if len(parts) != 2 {
				return "", fmt.Errorf("%s without 'in'", q)
			}
			if strings.TrimSpace(parts[1]) == "all" { // every 64-bit value (keys of a map)
				parts[1] = "allkeys_..allkeys_"
			}
			rng := strings.SplitN(parts[1], "..", 2)
			if len(rng) != 2 {
				return "", fmt.Errorf("%s without lo..hi", q)
			}
			b, err := rewriteCExpr(body)
			if err != nil {
				return "", err
			}
			lo, err := rewriteCExpr(rng[0])
			if err != nil {
				return "", err
			}
			hi, err := rewriteCExpr(rng[1])
			if err != nil {
				return "", err
			}
			return fmt.Sprintf("%s_(%s, %s, %s, %s)", q, strings.TrimSpace(parts[0]), lo, hi, b), nil
		}
	}
	// top-level ==>
	if k := topLevelIndex(s, "==>"); k >= 0 {
		a, err := rewriteCExpr(s[:k])
		if err != nil {
			return "", err
		}
		b, err := rewriteCExpr(s[k+3:])
		if err != nil {
			return "", err
		}
		return fmt.Sprintf("implies_(%s, %s)", a, b), nil
	}
	// recurse into parenthesised groups that contain ==> or quantifiers
	if !strings.Contains(s, "==>") && !strings.Contains(s, "forall ") && !strings.Contains(s, "exists ") && !strings.Contains(s, "each ") {
		return s, nil
	}
	var out strings.Builder
	for i := 0; i < len(s); i++ {
		if s[i] == '(' {
			j := matchParen(s, i)
			if j < 0 {
				return "", fmt.Errorf("unbalanced parentheses")
			}
			inner := s[i+1 : j]
			// split on top-level commas so call arguments are handled one by one
			var parts []string
			for {
				k := topLevelIndex(inner, ",")
				if k < 0 {
					parts = append(parts, inner)
					break
				}
				parts = append(parts, inner[:k])
				inner = inner[k+1:]
			}
			for n, p := range parts {
				r, err := rewriteCExpr(p)
				if err != nil {
					return "", err
				}
				parts[n] = r
			}
			out.WriteString("(" + strings.Join(parts, ", ") + ")")
			i = j
			continue
		}
		out.WriteByte(s[i])
	}
	return out.String(), nil
}

func matchParen(s string, i int) int {
	depth := 0
	for j := i; j < len(s); j++ {
		switch s[j] {
		case '(', '[':
			depth++
		case ')', ']':
			depth--
			if depth == 0 {
				return j
			}
		}
	}
	return -1
}

// topLevelIndex finds tok outside any parentheses/brackets.
func topLevelIndex(s, tok string) int {
	depth := 0
	for i := 0; i < len(s); i++ {
		switch s[i] {
		case '(', '[':
			depth++
		case ')', ']':
			depth--
		}
		if depth == 0 && strings.HasPrefix(s[i:], tok) {
			// do not mistake "==>" inside "a == b"; tok "==>" is exact; for ":" skip ":=" (not used)
			return i
		}
	}
	return -1
}
