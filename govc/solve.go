package main

import (
	"bytes"
	"context"
	"fmt"
	"os"
	"os/exec"
	"path/filepath"
	"regexp"
	"strings"
	"sync"
	"sync/atomic"
	"syscall"
	"time"
)

type solverPool struct {
	sem      chan struct{}
	wg       sync.WaitGroup
	mu       sync.Mutex
	timeout  float64
	dumpDir  string
	totalS   float64
	nQueries int
	deadline time.Time
	retryMu  sync.Mutex // undecided obligations are re-tried one at a time with a longer limit (load-induced timeouts)
	retries  int
}

func newSolverPool(jobs int, timeout float64, dump string) *solverPool {
	if dump != "" {
		os.MkdirAll(dump, 0o755)
	}
	return &solverPool{sem: make(chan struct{}, jobs), timeout: timeout, dumpDir: dump}
}

func (p *solverPool) wait()               { p.wg.Wait() }
func (p *solverPool) solverTime() float64 { p.mu.Lock(); defer p.mu.Unlock(); return p.totalS }
func (p *solverPool) queries() int        { p.mu.Lock(); defer p.mu.Unlock(); return p.nQueries }

type solverSpec struct {
	name string
	argv []string
	pre  string
}

func solvers(timeout float64) []solverSpec {
	ms := fmt.Sprintf("%d", int(timeout*1000))
	return []solverSpec{
		{"z3-5.1.0", []string{"z3-new", "-in", "-t:" + ms}, ""},
		{"cvc5-1.0.3", []string{"cvc5", "--lang", "smt2", "--produce-models", "--tlimit=" + ms}, "(set-logic ALL)\n"},
		{"z3-4.8.12", []string{"z3", "-in", "-t:" + ms}, ""},
	}
}

type solveOut struct {
	status string // unsat | sat | unknown
	solver string
	out    string
	secs   float64
	query  string // the query without the trailing get-value (kept for sat answers)
}

func runSolver(sp solverSpec, query string, timeout float64) solveOut {
	return runSolverCtx(context.Background(), sp, query, timeout)
}

func runSolverCtx(parent context.Context, sp solverSpec, query string, timeout float64) solveOut {
	ctx, cancel := context.WithTimeout(parent, time.Duration((timeout+1.5)*float64(time.Second)))
	defer cancel()
	cmd := exec.CommandContext(ctx, sp.argv[0], sp.argv[1:]...)
	cmd.SysProcAttr = &syscall.SysProcAttr{Setpgid: true}
	if strings.HasPrefix(sp.name, "cvc5") && strings.Contains(query, "((as const (Array (_ BitVec 64) Hash)) empty)") {
		// cvc5 accepts only values as the argument of a constant array; `empty` is an uninterpreted constant:
		// name the all-empty array and characterise it by an axiom instead
		query = strings.ReplaceAll(query, "((as const (Array (_ BitVec 64) Hash)) empty)", "zeroHashArr!")
		ax := "(declare-const zeroHashArr! (Array (_ BitVec 64) Hash))\n(assert (forall ((k!z (_ BitVec 64))) (! (= (select zeroHashArr! k!z) empty) :pattern ((select zeroHashArr! k!z)))))\n"
		query = strings.Replace(query, "(declare-const empty Hash)\n", "(declare-const empty Hash)\n"+ax, 1)
	}
	cmd.Stdin = strings.NewReader(sp.pre + query)
	var out bytes.Buffer
	cmd.Stdout = &out
	cmd.Stderr = &out
	t0 := time.Now()
	cmd.Run()
	secs := time.Since(t0).Seconds()
	if cmd.Process != nil {
		syscall.Kill(-cmd.Process.Pid, syscall.SIGKILL)
	}
	s := out.String()
	first := strings.TrimSpace(strings.SplitN(s, "\n", 2)[0])
	st := "unknown"
	switch first {
	case "unsat":
		st = "unsat"
	case "sat":
		st = "sat"
	}
	if st == "unknown" && strings.Contains(s, "error") && !strings.Contains(s, "timeout") && len(s) < 2000 && first != "unknown" && first != "timeout" {
		st = "error"
	}
	return solveOut{status: st, solver: sp.name, out: s, secs: secs}
}

// solve runs the portfolio: z3 5.1 first, then cvc5 and z3 4.8 in parallel.
func (p *solverPool) run(sp solverSpec, query string, timeout float64) solveOut {
	return p.runCtx(context.Background(), sp, query, timeout)
}

func (p *solverPool) runCtx(ctx context.Context, sp solverSpec, query string, timeout float64) solveOut {
	p.sem <- struct{}{}
	defer func() { <-p.sem }()
	if !p.deadline.IsZero() && time.Now().After(p.deadline) {
		return solveOut{status: "unknown", solver: sp.name, out: "global budget exhausted"}
	}
	return runSolverCtx(ctx, sp, query, timeout)
}

func (p *solverPool) solve(query string, timeout float64) solveOut {
	return p.solveP(query, timeout, true)
}

func (p *solverPool) solveP(query string, timeout float64, portfolio bool) solveOut {
	sps := solvers(timeout)
	// z3 5.1 decides almost everything it can decide within a few seconds: give it a short first slice, and only then
	// start the whole portfolio (z3 5.1 with the full limit, cvc5, z3 4.8) side by side
	first := timeout
	if portfolio && first > 4 {
		first = 4
	}
	r := p.run(solvers(first)[0], query, first)
	p.account(r)
	if r.status == "unsat" || r.status == "sat" || !portfolio {
		return r
	}
	rest := sps[1:]
	if first < timeout {
		rest = sps
	}
	ch := make(chan solveOut, len(rest))
	ctx, cancel := context.WithCancel(context.Background())
	defer cancel() // the first decisive answer stops the other solvers
	for _, sp := range rest {
		sp := sp
		go func() { ch <- p.runCtx(ctx, sp, query, timeout) }()
	}
	best := r
	for i := 0; i < len(rest); i++ {
		o := <-ch
		p.account(o)
		if o.status == "unsat" || o.status == "sat" {
			return o
		} else if best.status == "unknown" && o.status == "error" && best.out == "" {
			best = o
		}
	}
	return best
}

func (p *solverPool) account(o solveOut) {
	p.mu.Lock()
	p.totalS += o.secs
	p.nQueries++
	p.mu.Unlock()
}

var reVal = regexp.MustCompile(`\(([^\s()]+) (#x[0-9a-fA-F]+|#b[01]+|true|false|[A-Za-z][^\s()]*)\)`)

// submitFunc schedules all obligations of a function.
func (p *solverPool) submitFunc(c *FnCtx, fr *FuncResult) {
	parsed := parseLog(c.log)
	// group by name
	groups := map[string][]*Obl{}
	var order []string
	for _, o := range c.obls {
		if _, ok := groups[o.Name]; !ok {
			order = append(order, o.Name)
		}
		groups[o.Name] = append(groups[o.Name], o)
	}
	results := make([]OblResult, len(order))
	var fwg sync.WaitGroup
	for gi, name := range order {
		gi, name := gi, name
		obs := groups[name]
		res := &results[gi]
		*res = OblResult{Name: name, Func: c.key, Kind: obs[0].Kind, Desc: obs[0].Desc, Smoke: obs[0].Smoke, Status: "proved"}
		if obs[0].Pos.IsValid() {
			res.Pos = c.posStr(obs[0].Pos)
		}
		var rmu sync.Mutex
		for _, o := range obs {
			o := o
			p.wg.Add(1)
			fwg.Add(1)
			go func() {
				defer p.wg.Done()
				defer fwg.Done()
				r := p.solveObl(c, parsed, o, p.timeout)
				if r.Status == "unknown" && !strings.Contains(r.Output, "global budget exhausted") {
					// undecided is usually a solver time limit hit under load: once more, alone, with three times the limit
					p.retryMu.Lock()
					p.retries++
					r2 := p.solveObl(c, parsed, o, 3*p.timeout)
					p.retryMu.Unlock()
					r2.TimeS += r.TimeS
					r2.Queries += r.Queries
					r = r2
				}
				rmu.Lock()
				defer rmu.Unlock()
				res.TimeS += r.TimeS
				res.Queries += r.Queries
				if r.Solver != "" && res.Solver == "" {
					res.Solver = r.Solver
				}
				// failed dominates unknown dominates proved
				rank := map[string]int{"proved": 0, "unknown": 1, "failed": 2}
				if rank[r.Status] > rank[res.Status] {
					res.Status = r.Status
					res.Model = r.Model
					res.Split = r.Split
					res.Output = r.Output
					res.FailCase = r.FailCase
					res.Solver = r.Solver
					res.Elems = r.Elems
					res.ReplaySrc = r.ReplaySrc
					res.NoReplay = r.NoReplay
				}
			}()
		}
	}
	p.wg.Add(1)
	go func() {
		defer p.wg.Done()
		fwg.Wait()
		fr.Obligations = results
	}()
}

// solveObl decides one obligation visit: unsplit first, then the declared case split.
func (p *solverPool) solveObl(c *FnCtx, parsed []logLine, o *Obl, tmo float64) OblResult {
	res := OblResult{Status: "proved"}
	getvals := c.getValueCmd()
	var splits []SplitSpec
	if c.contract != nil {
		splits = c.contract.Splits
	}
	try := func(extra []string, timeout float64, full bool) solveOut {
		qb := c.buildQuery(parsed, o, extra, full)
		q := qb + getvals
		r := p.solveP(q, timeout, len(splits) == 0)
		if r.status == "sat" {
			r.query = qb
		}
		res.TimeS += r.secs
		res.Queries++
		if p.dumpDir != "" && r.status != "unsat" && !o.Smoke {
			fn := filepath.Join(p.dumpDir, fmt.Sprintf("%s.v%d.%s.smt2", sanitize(o.Name), o.Visit, sanitize(strings.Join(extra, "_"))))
			os.WriteFile(fn, []byte(q), 0o644)
		}
		return r
	}
	finish := func(r solveOut, split string) OblResult {
		res.Solver = r.solver
		res.Split = split
		if o.Smoke {
			// a smoke obligation must be satisfiable
			switch r.status {
			case "sat":
				res.Status = "proved"
			case "unsat":
				res.Status = "failed"
				res.Output = "context is unsatisfiable (vacuous contract)"
			default:
				res.Status = "unknown"
			}
			return res
		}
		switch r.status {
		case "unsat":
			res.Status = "proved"
		case "sat":
			res.Status = "failed"
			res.Model = map[string]string{}
			for _, m := range reVal.FindAllStringSubmatch(r.out, -1) {
				res.Model[m[1]] = m[2]
			}
			res.Output = truncate(r.out, 4000)
			if r.query != "" {
				model, elems := p.refineModel(c, r.query, res.Model)
				res.Model = model
				res.Elems = elems
				res.ReplaySrc, res.NoReplay = c.replaySource(model, elems)
			}
		default:
			res.Status = "unknown"
			res.Output = truncate(r.out, 2000)
		}
		return res
	}
	first := tmo
	if len(splits) > 0 && first > 0.4 {
		first = 0.4
	}
	// goals that do not speak about slice contents are tried first without the quantified facts
	if !o.Smoke && !strings.Contains(o.Goal, "select") && !strings.Contains(o.Goal, "forall") {
		q0 := c.buildQueryQ(parsed, o, nil, false, false)
		if !strings.Contains(q0, "(forall ") {
			// nothing was dropped: fall through to the normal path
		} else {
			r0 := p.solveP(q0, first, false)
			res.TimeS += r0.secs
			res.Queries++
			if r0.status == "unsat" {
				return finish(r0, "")
			}
		}
	}
	r := try(nil, first, false)
	if r.status == "sat" && !o.Smoke {
		// confirm with the full context (the cone-of-influence slice only drops facts)
		r2 := try(nil, first, true)
		if r2.status == "unsat" {
			return finish(r2, "")
		}
		if r2.status == "sat" {
			return finish(r2, "")
		}
	}
	if r.status == "unsat" || r.status == "sat" || len(splits) == 0 {
		if r.status == "unknown" || r.status == "error" {
			r2 := try(nil, tmo, true)
			if r2.status == "unsat" || r2.status == "sat" {
				return finish(r2, "")
			}
		}
		return finish(r, "")
	}
	// case split (a finite, complete split of a small parameter; not a bound)
	sp := splits[0]
	v, ok := c.splitTerm.(SV)
	if !ok || v.S.K != KBV {
		return finish(r, "")
	}
	type kres struct {
		k int
		r solveOut
	}
	n := sp.Hi - sp.Lo + 2 // the last entry is the residual case (value outside lo..hi)
	outs := make([]solveOut, n)
	var swg sync.WaitGroup
	var smu sync.Mutex
	var abort atomic.Bool
	for k := sp.Lo; k <= sp.Hi+1; k++ {
		k := k
		swg.Add(1)
		go func() {
			defer swg.Done()
			if abort.Load() {
				smu.Lock()
				outs[k-sp.Lo] = solveOut{status: "skipped"}
				smu.Unlock()
				return
			}
			extra := []string{app("=", v.T, bvInt(int64(k), v.S.W))}
			if k == sp.Hi+1 {
				lt := "bvult"
				if v.Signed {
					lt = "bvslt"
				}
				extra = []string{or(app(lt, v.T, bvInt(int64(sp.Lo), v.S.W)), app(lt, bvInt(int64(sp.Hi), v.S.W), v.T))}
			}
			qb := c.buildQuery(parsed, o, extra, false)
			q := qb + getvals
			rk := p.solve(q, tmo)
			if rk.status == "sat" {
				rk.query = qb
			}
			nq := 1
			secs := rk.secs
			if (rk.status == "sat" && !o.Smoke) || (rk.status != "unsat" && rk.status != "sat") {
				qb2 := c.buildQuery(parsed, o, extra, true)
				q2 := qb2 + getvals
				rk2 := p.solve(q2, tmo)
				if rk2.status == "sat" {
					rk2.query = qb2
				}
				nq++
				secs += rk2.secs
				if rk2.status == "unsat" || rk2.status == "sat" {
					rk = rk2
				}
				if p.dumpDir != "" && rk.status != "unsat" && !o.Smoke {
					fn := filepath.Join(p.dumpDir, fmt.Sprintf("%s.v%d.k%d.smt2", sanitize(o.Name), o.Visit, k))
					os.WriteFile(fn, []byte(q2), 0o644)
				}
			}
			if rk.status != "unsat" && !o.Smoke {
				abort.Store(true)
			}
			if rk.status == "sat" && o.Smoke {
				abort.Store(true)
			}
			smu.Lock()
			outs[k-sp.Lo] = rk
			res.Queries += nq
			res.TimeS += secs
			smu.Unlock()
		}()
	}
	swg.Wait()
	if o.Smoke {
		for i, rk := range outs {
			if rk.status == "sat" {
				return finish(rk, fmt.Sprintf("%s=%d", sp.Var, sp.Lo+i))
			}
		}
		for i, rk := range outs {
			if rk.status != "unsat" && rk.status != "skipped" {
				return finish(rk, fmt.Sprintf("%s=%d", sp.Var, sp.Lo+i))
			}
		}
		return finish(solveOut{status: "unsat"}, "")
	}
	for i, rk := range outs {
		if rk.status == "sat" {
			return finish(rk, fmt.Sprintf("%s=%d", sp.Var, sp.Lo+i))
		}
	}
	for i, rk := range outs {
		if rk.status != "unsat" && rk.status != "skipped" {
			return finish(rk, fmt.Sprintf("%s=%d", sp.Var, sp.Lo+i))
		}
	}
	for i, rk := range outs {
		if rk.status != "unsat" {
			return finish(rk, fmt.Sprintf("%s=%d", sp.Var, sp.Lo+i))
		}
	}
	return finish(outs[0], fmt.Sprintf("%s=%d..%d", sp.Var, sp.Lo, sp.Hi))
}

func truncate(s string, n int) string {
	if len(s) > n {
		return s[:n] + "..."
	}
	return s
}

// getValueCmd asks for the values of the scalar inputs (and slice lengths).
func (c *FnCtx) getValueCmd() string {
	var names []string
	var walk func(v Val)
	walk = func(v Val) {
		switch x := v.(type) {
		case SV:
			if !strings.ContainsAny(x.T, " (") && !isConstTerm(x.T) && x.T != "true" && x.T != "false" && x.T != "empty" {
				names = append(names, x.T)
			}
		case *StructVal:
			for _, f := range x.Order {
				walk(x.F[f])
			}
		case *SliceVal:
			if !isConstTerm(x.Len) {
				names = append(names, x.Len)
			}
		case *PtrVal:
			if cv, ok := c.entry.cells[x.Cell]; ok {
				walk(cv)
			}
		}
	}
	for _, in := range c.inputs {
		walk(in.Val)
	}
	if len(names) == 0 {
		return ""
	}
	return "(get-value (" + strings.Join(names, " ") + "))\n"
}

// refineModel looks for a small model (few slice elements) and reads the elements of the input slices.
func (p *solverPool) refineModel(c *FnCtx, qbase string, model map[string]string) (map[string]string, map[string]string) {
	strip := func(q string) string { return strings.TrimSuffix(strings.TrimSpace(q), "(check-sat)") }
	base := strip(qbase)
	getvals := c.getValueCmd()
	sp := solvers(5)[0]
	for _, limit := range []int{2, 4, 8} {
		var b strings.Builder
		b.WriteString(base)
		for _, a := range c.smallLenConstraints(limit) {
			b.WriteString("(assert " + a + ")\n")
		}
		r := p.run(sp, b.String()+"(check-sat)\n"+getvals, 5)
		p.account(r)
		if r.status == "sat" {
			model = map[string]string{}
			for _, m := range reVal.FindAllStringSubmatch(r.out, -1) {
				model[m[1]] = m[2]
			}
			base = b.String()
			break
		}
	}
	// second round: pin the scalars and lengths, ask for the elements
	terms := c.elementTerms(model)
	elems := map[string]string{}
	if len(terms) == 0 {
		return model, elems
	}
	var b strings.Builder
	b.WriteString(base)
	for k, v := range model {
		if strings.HasPrefix(v, "#") || v == "true" || v == "false" {
			b.WriteString(fmt.Sprintf("(assert (= %s %s))\n", k, v))
		}
	}
	b.WriteString("(check-sat)\n(get-value (")
	for _, t := range terms {
		b.WriteString(t.term + " ")
	}
	b.WriteString("))\n")
	r := p.run(sp, b.String(), 5)
	p.account(r)
	if r.status == "sat" {
		vals := parseGetValue(r.out)
		if len(vals) == len(terms) {
			for i, t := range terms {
				elems[t.path] = vals[i]
			}
		}
	}
	return model, elems
}
