package main

import (
	"fmt"
	"go/types"
	"sort"
	"strings"
)

// ---------------------------------------------------------------------------
// Symbolic values
// ---------------------------------------------------------------------------

type Val interface{ isVal() }

// SV: a scalar (bool, integer, Hash, error as Bool "is non-nil", opaque sort).
type SV struct {
	T      string
	S      Sort
	Signed bool
}

// StructVal: a struct as the tuple of its fields.
type StructVal struct {
	TypeName string
	F        map[string]Val
	Order    []string
}

// SliceVal: value-semantics slice (or fixed array): per-leaf SMT arrays indexed by BV64.
// Leaves: "" for scalar elements, field paths for struct elements, "$nonnil" for pointer elements.
type SliceVal struct {
	Leaves    map[string]string
	LeafSorts map[string]Sort
	LeafSign  map[string]bool
	Len, Cap  string // BV64 (signed int)
	Off       string // BV64 offset into the leaf arrays ("" = 0)
	Nil       string // Bool term: the slice is nil ("" = not nil)
	Elem      types.Type
	Opaque    bool // elements not modelled (slices of slices, ...): reads give fresh values
}

// PtrVal: pointer to a struct held in a cell of the environment.
type PtrVal struct {
	Cell   *Cell
	NonNil string // Bool term
}

// Cell is a heap cell (struct pointed to by a receiver/parameter).
type Cell struct {
	Name string
}

// OpaqueVal: a value we do not track (maps, funcs, interfaces, strings).
type OpaqueVal struct{ T types.Type }

func (SV) isVal()         {}
func (*StructVal) isVal() {}
func (*SliceVal) isVal()  {}
func (*PtrVal) isVal()    {}
func (OpaqueVal) isVal()  {}

// ---------------------------------------------------------------------------
// Go types -> sorts
// ---------------------------------------------------------------------------

func isHashType(t types.Type) bool {
	if n, ok := t.(*types.Named); ok {
		if n.Obj().Name() == "Hash" {
			return true
		}
	}
	// [32]byte (the package-level `empty`)
	if a, ok := t.Underlying().(*types.Array); ok && a.Len() == 32 {
		if b, ok := a.Elem().Underlying().(*types.Basic); ok && b.Kind() == types.Uint8 {
			return true
		}
	}
	return false
}

func isErrorType(t types.Type) bool {
	n, ok := t.(*types.Named)
	return ok && n.Obj().Pkg() == nil && n.Obj().Name() == "error"
}

func basicInfo(t types.Type) (w int, signed bool, ok bool) {
	b, isb := t.Underlying().(*types.Basic)
	if !isb {
		return 0, false, false
	}
	switch b.Kind() {
	case types.Int8:
		return 8, true, true
	case types.Int16:
		return 16, true, true
	case types.Int32:
		return 32, true, true
	case types.Int64, types.Int, types.UntypedInt, types.UntypedRune:
		return 64, true, true
	case types.Uint8:
		return 8, false, true
	case types.Uint16:
		return 16, false, true
	case types.Uint32:
		return 32, false, true
	case types.Uint64, types.Uint, types.Uintptr:
		return 64, false, true
	}
	return 0, false, false
}

func isBool(t types.Type) bool {
	b, ok := t.Underlying().(*types.Basic)
	return ok && (b.Kind() == types.Bool || b.Kind() == types.UntypedBool)
}

// scalarSort returns the sort of a scalar Go type, or false if the type is not scalar.
func (c *FnCtx) scalarSort(t types.Type) (Sort, bool, bool) {
	if isHashType(t) {
		return SHash, false, true
	}
	if isErrorType(t) {
		return SBool, false, true
	}
	if isBool(t) {
		return SBool, false, true
	}
	if w, s, ok := basicInfo(t); ok {
		return BV(w), s, true
	}
	if _, ok := t.(*types.TypeParam); ok {
		return c.opaqueSort("TP_" + t.String()), false, true
	}
	return Sort{}, false, false
}

func (c *FnCtx) opaqueSort(name string) Sort {
	name = sanitize(name)
	if !c.opaque[name] {
		c.opaque[name] = true
		c.sortDecls = append(c.sortDecls, fmt.Sprintf("(declare-sort %s 0)", name))
	}
	return Sort{K: KOpaque, Name: name}
}

func sanitize(s string) string {
	var b strings.Builder
	for _, r := range s {
		if (r >= 'a' && r <= 'z') || (r >= 'A' && r <= 'Z') || (r >= '0' && r <= '9') || r == '_' {
			b.WriteRune(r)
		} else {
			b.WriteByte('_')
		}
	}
	return b.String()
}

// elemLeaves flattens an element type into leaves.
func (c *FnCtx) elemLeaves(t types.Type) (paths []string, sorts map[string]Sort, signs map[string]bool, ok bool) {
	sorts = map[string]Sort{}
	signs = map[string]bool{}
	if s, sg, isS := c.scalarSort(t); isS {
		return []string{""}, map[string]Sort{"": s}, map[string]bool{"": sg}, true
	}
	switch u := t.Underlying().(type) {
	case *types.Struct:
		for i := 0; i < u.NumFields(); i++ {
			f := u.Field(i)
			if s, sg, isS := c.scalarSort(f.Type()); isS {
				paths = append(paths, f.Name())
				sorts[f.Name()] = s
				signs[f.Name()] = sg
			}
			// non-scalar fields of elements are not modelled
		}
		return paths, sorts, signs, true
	case *types.Pointer:
		if st, isSt := u.Elem().Underlying().(*types.Struct); isSt {
			paths = append(paths, "$nonnil")
			sorts["$nonnil"] = SBool
			for i := 0; i < st.NumFields(); i++ {
				f := st.Field(i)
				if s, sg, isS := c.scalarSort(f.Type()); isS {
					paths = append(paths, f.Name())
					sorts[f.Name()] = s
					signs[f.Name()] = sg
				}
			}
			return paths, sorts, signs, true
		}
	}
	return nil, nil, nil, false
}

// ---------------------------------------------------------------------------
// Fresh values
// ---------------------------------------------------------------------------

const maxLen = "#x0000010000000000"   // 2^40: assumed bound on the length of caller-supplied slices
const allocMax = "#x0001000000000000" // 2^48: bound on slices produced by make/append (allocation succeeds): address-space bound on len/cap (listed assumption)

// freshVal declares a fresh symbolic value of type t. Facts about it (slice length ranges) are
// returned as wf and must be assumed by the caller.
func (c *FnCtx) freshVal(t types.Type, hint string) (Val, []string) {
	if s, sg, ok := c.scalarSort(t); ok {
		return SV{c.fresh(hint, s), s, sg}, nil
	}
	switch u := t.Underlying().(type) {
	case *types.Slice:
		return c.freshSlice(u.Elem(), hint, "")
	case *types.Array:
		n := bvInt(u.Len(), 64)
		return c.freshSlice(u.Elem(), hint, n)
	case *types.Struct:
		sv := &StructVal{TypeName: t.String(), F: map[string]Val{}}
		var wf []string
		for i := 0; i < u.NumFields(); i++ {
			f := u.Field(i)
			v, w := c.freshVal(f.Type(), hint+"_"+f.Name())
			sv.F[f.Name()] = v
			sv.Order = append(sv.Order, f.Name())
			wf = append(wf, w...)
		}
		return sv, wf
	case *types.Pointer:
		if _, isSt := u.Elem().Underlying().(*types.Struct); isSt {
			cell := &Cell{Name: hint + "$cell"}
			nn := c.fresh(hint+"_nonnil", SBool)
			return &PtrVal{Cell: cell, NonNil: nn}, nil
		}
	}
	return OpaqueVal{t}, nil
}

func (c *FnCtx) freshSlice(elem types.Type, hint string, fixedLen string) (Val, []string) {
	sl := &SliceVal{Leaves: map[string]string{}, LeafSorts: map[string]Sort{}, LeafSign: map[string]bool{}, Elem: elem}
	paths, sorts, signs, ok := c.elemLeaves(elem)
	if !ok {
		sl.Opaque = true
	}
	for _, p := range paths {
		sl.Leaves[p] = c.fresh(hint+"_arr"+sanitize(p), ArrayOf(sorts[p]))
		sl.LeafSorts[p] = sorts[p]
		sl.LeafSign[p] = signs[p]
	}
	var wf []string
	if fixedLen != "" {
		sl.Len, sl.Cap = fixedLen, fixedLen
	} else {
		sl.Len = c.fresh(hint+"_len", S64)
		sl.Cap = c.fresh(hint+"_cap", S64)
		wf = append(wf, app("bvsle", bvInt(0, 64), sl.Len), app("bvsle", sl.Len, sl.Cap), app("bvsle", sl.Cap, maxLen))
		sl.Nil = c.fresh(hint+"_nil", SBool)
		wf = append(wf, implies(sl.Nil, app("=", sl.Cap, bvInt(0, 64))))
	}
	return sl, wf
}

// ---------------------------------------------------------------------------
// Merging values at control-flow joins:  result = cond ? a : b
// ---------------------------------------------------------------------------

func (c *FnCtx) mergeVal(cond string, a, b Val, hint string) (Val, bool) {
	switch x := a.(type) {
	case SV:
		y, ok := b.(SV)
		if !ok || !x.S.Eq(y.S) {
			return nil, false
		}
		if x.T == y.T {
			return x, true
		}
		return SV{c.define(hint, x.S, ite(cond, x.T, y.T)), x.S, x.Signed}, true
	case *StructVal:
		y, ok := b.(*StructVal)
		if !ok {
			return nil, false
		}
		if x == y {
			return x, true
		}
		r := &StructVal{TypeName: x.TypeName, F: map[string]Val{}, Order: x.Order}
		for _, f := range x.Order {
			yv, ok := y.F[f]
			if !ok {
				return nil, false
			}
			m, ok := c.mergeVal(cond, x.F[f], yv, hint+"_"+f)
			if !ok {
				return nil, false
			}
			r.F[f] = m
		}
		return r, true
	case *SliceVal:
		y, ok := b.(*SliceVal)
		if !ok {
			return nil, false
		}
		if x == y {
			return x, true
		}
		r := &SliceVal{Leaves: map[string]string{}, LeafSorts: x.LeafSorts, LeafSign: x.LeafSign, Elem: x.Elem, Opaque: x.Opaque}
		if x.off() == y.off() {
			r.Off = x.Off
		} else {
			r.Off = c.define(hint+"_off", S64, ite(cond, x.off(), y.off()))
		}
		if x.nilTerm() == y.nilTerm() {
			r.Nil = x.Nil
		} else {
			r.Nil = c.define(hint+"_nil", SBool, ite(cond, x.nilTerm(), y.nilTerm()))
		}
		for p, t := range x.Leaves {
			yt, ok := y.Leaves[p]
			if !ok {
				return nil, false
			}
			if t == yt {
				r.Leaves[p] = t
			} else {
				r.Leaves[p] = c.define(hint+"_arr"+sanitize(p), ArrayOf(x.LeafSorts[p]), ite(cond, t, yt))
			}
		}
		if x.Len == y.Len {
			r.Len = x.Len
		} else {
			r.Len = c.define(hint+"_len", S64, ite(cond, x.Len, y.Len))
		}
		if x.Cap == y.Cap {
			r.Cap = x.Cap
		} else {
			r.Cap = c.define(hint+"_cap", S64, ite(cond, x.Cap, y.Cap))
		}
		return r, true
	case *PtrVal:
		y, ok := b.(*PtrVal)
		if !ok || x.Cell != y.Cell {
			return nil, false
		}
		if x.NonNil == y.NonNil {
			return x, true
		}
		return &PtrVal{Cell: x.Cell, NonNil: c.define(hint+"_nn", SBool, ite(cond, x.NonNil, y.NonNil))}, true
	case OpaqueVal:
		return a, true
	}
	return nil, false
}

// ---------------------------------------------------------------------------
// State
// ---------------------------------------------------------------------------

type State struct {
	pc    string
	env   map[types.Object]Val
	cells map[*Cell]Val
}

func (s *State) clone() *State {
	n := &State{pc: s.pc, env: make(map[types.Object]Val, len(s.env)), cells: make(map[*Cell]Val, len(s.cells))}
	for k, v := range s.env {
		n.env[k] = v
	}
	for k, v := range s.cells {
		n.cells[k] = v
	}
	return n
}

// mergeStates joins states (pairwise, left to right). nil entries are skipped.
func (c *FnCtx) mergeStates(sts []*State, hint string) *State {
	var cur *State
	for _, s := range sts {
		if s == nil || s.pc == "false" {
			continue
		}
		if cur == nil {
			cur = s
			continue
		}
		cur = c.merge2(cur, s, hint)
	}
	return cur
}

func (c *FnCtx) merge2(a, b *State, hint string) *State {
	r := &State{env: map[types.Object]Val{}, cells: map[*Cell]Val{}}
	r.pc = c.define("pc", SBool, or(a.pc, b.pc))
	// deterministic order
	keys := make([]types.Object, 0, len(a.env))
	for k := range a.env {
		if _, ok := b.env[k]; ok {
			keys = append(keys, k)
		}
	}
	sort.Slice(keys, func(i, j int) bool { return keys[i].Pos() < keys[j].Pos() })
	for _, k := range keys {
		m, ok := c.mergeVal(a.pc, a.env[k], b.env[k], k.Name())
		if !ok {
			// shapes differ: forget the variable
			continue
		}
		r.env[k] = m
	}
	for k, av := range a.cells {
		if bv, ok := b.cells[k]; ok {
			if m, ok := c.mergeVal(a.pc, av, bv, k.Name); ok {
				r.cells[k] = m
			}
		}
	}
	return r
}
