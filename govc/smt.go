package main

import (
	"fmt"
	"math/big"
	"strings"
)

// ---------------------------------------------------------------------------
// Sorts and terms.  Terms are SMT-LIB strings tagged with a sort.
// ---------------------------------------------------------------------------

type SortKind int

const (
	KBool SortKind = iota
	KBV
	KHash
	KOpaque // uninterpreted sort, one per Go type we do not model
	KArray
)

type Sort struct {
	K    SortKind
	W    int    // bit width for KBV
	Name string // for KOpaque
	Elem *Sort  // for KArray (index is always BV64)
}

var (
	SBool = Sort{K: KBool}
	SHash = Sort{K: KHash}
	S64   = Sort{K: KBV, W: 64}
	S8    = Sort{K: KBV, W: 8}
)

func BV(w int) Sort { return Sort{K: KBV, W: w} }
func ArrayOf(e Sort) Sort {
	ec := e
	return Sort{K: KArray, Elem: &ec}
}

func (s Sort) String() string {
	switch s.K {
	case KBool:
		return "Bool"
	case KBV:
		return fmt.Sprintf("(_ BitVec %d)", s.W)
	case KHash:
		return "Hash"
	case KOpaque:
		return s.Name
	case KArray:
		return fmt.Sprintf("(Array (_ BitVec 64) %s)", s.Elem.String())
	}
	return "?"
}

func (s Sort) Eq(o Sort) bool { return s.String() == o.String() }

// bvConst renders an integer constant of the given width (two's complement).
func bvConst(v *big.Int, w int) string {
	m := new(big.Int).Lsh(big.NewInt(1), uint(w))
	x := new(big.Int).Mod(v, m)
	if x.Sign() < 0 {
		x.Add(x, m)
	}
	if w%4 == 0 {
		s := x.Text(16)
		return "#x" + strings.Repeat("0", w/4-len(s)) + s
	}
	s := x.Text(2)
	return "#b" + strings.Repeat("0", w-len(s)) + s
}

func bvInt(v int64, w int) string { return bvConst(big.NewInt(v), w) }

func app(op string, args ...string) string {
	return "(" + op + " " + strings.Join(args, " ") + ")"
}

func and(args ...string) string {
	var a []string
	for _, x := range args {
		if x == "true" {
			continue
		}
		if x == "false" {
			return "false"
		}
		a = append(a, x)
	}
	if len(a) == 0 {
		return "true"
	}
	if len(a) == 1 {
		return a[0]
	}
	return app("and", a...)
}

func or(args ...string) string {
	var a []string
	for _, x := range args {
		if x == "false" {
			continue
		}
		if x == "true" {
			return "true"
		}
		a = append(a, x)
	}
	if len(a) == 0 {
		return "false"
	}
	if len(a) == 1 {
		return a[0]
	}
	return app("or", a...)
}

func not(x string) string {
	if x == "true" {
		return "false"
	}
	if x == "false" {
		return "true"
	}
	return app("not", x)
}

func implies(a, b string) string {
	if a == "true" {
		return b
	}
	if a == "false" || b == "true" {
		return "true"
	}
	return app("=>", a, b)
}

func ite(c, a, b string) string {
	if c == "true" {
		return a
	}
	if c == "false" {
		return b
	}
	if a == b {
		return a
	}
	return app("ite", c, a, b)
}

// resize converts a bit-vector term from width fw to width tw (Go conversion semantics).
func resize(t string, fw, tw int, signed bool) string {
	if fw == tw {
		return t
	}
	if tw < fw {
		return fmt.Sprintf("((_ extract %d 0) %s)", tw-1, t)
	}
	if signed {
		return fmt.Sprintf("((_ sign_extend %d) %s)", tw-fw, t)
	}
	return fmt.Sprintf("((_ zero_extend %d) %s)", tw-fw, t)
}
