package main

import (
	"fmt"
	"go/types"
	"math/big"
	"strings"
)

// ---------------------------------------------------------------------------
// Counterexample -> Go test that calls the REAL function (DESIGN 2.5).
//
// After a `sat` answer the query is re-run with the input slices limited to a few elements (if that
// is still satisfiable, the small model is used) and the solver is asked for every input element.
// The model is turned into an in-package test which the driver injects with `go test -overlay`.
// ---------------------------------------------------------------------------

type modelTerm struct {
	path string // e.g. "proof.Targets[1]" or "numLeaves"
	term string
}

// inputTerms lists scalar terms of the inputs; for slices only the length (elements are asked in a second round).
func (c *FnCtx) smallLenConstraints(limit int) []string {
	var out []string
	var walk func(v Val)
	walk = func(v Val) {
		switch x := v.(type) {
		case *StructVal:
			for _, f := range x.Order {
				walk(x.F[f])
			}
		case *SliceVal:
			if !isConstTerm(x.Len) {
				out = append(out, app("bvsle", x.Len, bvInt(int64(limit), 64)))
			}
		case *PtrVal:
			if cv, ok := c.entry.cells[x.Cell]; ok {
				walk(cv)
			}
		}
	}
	for _, in := range c.inputs {
		walk(in.Val)
	}
	return out
}

// elementQuery builds get-value terms for the elements of every input slice, given the lengths of a model.
func (c *FnCtx) elementTerms(model map[string]string) []modelTerm {
	var out []modelTerm
	var walk func(path string, v Val)
	walk = func(path string, v Val) {
		switch x := v.(type) {
		case *StructVal:
			for _, f := range x.Order {
				walk(path+"."+f, x.F[f])
			}
		case *SliceVal:
			n := int64(-1)
			if isConstTerm(x.Len) {
				n = parseBV(x.Len)
			} else if mv, ok := model[x.Len]; ok {
				n = parseBV(mv)
			}
			if n < 0 || n > 16 {
				return
			}
			for k := int64(0); k < n; k++ {
				for _, p := range sortedKeys(x.Leaves) {
					at := bvInt(k, 64)
					if x.Off != "" {
						at = app("bvadd", x.Off, at)
					}
					out = append(out, modelTerm{fmt.Sprintf("%s[%d]%s", path, k, leafSuffix(p)), app("select", x.Leaves[p], at)})
				}
			}
		case *PtrVal:
			if cv, ok := c.entry.cells[x.Cell]; ok {
				walk(path, cv)
			}
		}
	}
	for _, in := range c.inputs {
		walk(in.Name, in.Val)
	}
	return out
}

func leafSuffix(p string) string {
	if p == "" {
		return ""
	}
	return "." + p
}

func parseBV(s string) int64 {
	if strings.HasPrefix(s, "#x") {
		b, ok := new(big.Int).SetString(s[2:], 16)
		if ok && b.IsInt64() {
			return b.Int64()
		}
		return -1
	}
	if strings.HasPrefix(s, "#b") {
		b, ok := new(big.Int).SetString(s[2:], 2)
		if ok && b.IsInt64() {
			return b.Int64()
		}
	}
	return -1
}

// parseGetValue splits "((t1 v1) (t2 v2) ...)" into the values, in order.
func parseGetValue(out string) []string {
	i := strings.Index(out, "((")
	if i < 0 {
		return nil
	}
	s := out[i+1:]
	var vals []string
	depth := 0
	start := -1
	for k := 0; k < len(s); k++ {
		switch s[k] {
		case '(':
			if depth == 0 {
				start = k
			}
			depth++
		case ')':
			depth--
			if depth == 0 && start >= 0 {
				pair := strings.TrimSpace(s[start+1 : k])
				// the value is the last top-level token/paren group of the pair
				vals = append(vals, lastSexp(pair))
				start = -1
			}
			if depth < 0 {
				return vals
			}
		}
	}
	return vals
}

func lastSexp(s string) string {
	s = strings.TrimSpace(s)
	if strings.HasSuffix(s, ")") {
		depth := 0
		for k := len(s) - 1; k >= 0; k-- {
			switch s[k] {
			case ')':
				depth++
			case '(':
				depth--
				if depth == 0 {
					return s[k:]
				}
			}
		}
	}
	k := strings.LastIndexAny(s, " \t\n")
	return s[k+1:]
}

// ---------------------------------------------------------------------------
// Go source for the inputs
// ---------------------------------------------------------------------------

type replayGen struct {
	c      *FnCtx
	model  map[string]string // term name -> value (scalars, lengths)
	elems  map[string]string // path -> value
	hashes map[string]int
	ok     bool
	why    string
}

func (g *replayGen) hashLit(v string) string {
	if v == "" || v == "empty" {
		return "Hash{}"
	}
	if _, ok := g.hashes[v]; !ok {
		g.hashes[v] = len(g.hashes) + 1
	}
	k := g.hashes[v]
	return fmt.Sprintf("Hash{0xAA, %d, %d}", k/256, k%256)
}

func (g *replayGen) scalarLit(t types.Type, s SV, path string) string {
	val, ok := g.model[s.T]
	if !ok {
		if isConstTerm(s.T) || s.T == "true" || s.T == "false" || s.T == "empty" {
			val = s.T
		} else if ev, ok2 := g.elems[path]; ok2 {
			val = ev
		}
	}
	switch s.S.K {
	case KBool:
		if isErrorType(t) {
			if val == "true" {
				return `fmt.Errorf("model error")`
			}
			return "nil"
		}
		if val == "true" {
			return "true"
		}
		return "false"
	case KBV:
		if val == "" {
			return "0"
		}
		b := new(big.Int)
		if strings.HasPrefix(val, "#x") {
			b.SetString(val[2:], 16)
		} else if strings.HasPrefix(val, "#b") {
			b.SetString(val[2:], 2)
		}
		if s.Signed && b.Bit(s.S.W-1) == 1 {
			b.Sub(b, new(big.Int).Lsh(big.NewInt(1), uint(s.S.W)))
		}
		return fmt.Sprintf("%s(%s)", types.TypeString(t, func(*types.Package) string { return "" }), b.String())
	case KHash:
		return g.hashLit(val)
	}
	g.ok = false
	g.why = "opaque scalar " + path
	return "nil"
}

func (g *replayGen) lit(t types.Type, v Val, path string) string {
	qual := func(*types.Package) string { return "" }
	switch x := v.(type) {
	case SV:
		return g.scalarLit(t, x, path)
	case *StructVal:
		st, ok := t.Underlying().(*types.Struct)
		if !ok {
			g.ok = false
			g.why = "struct shape " + path
			return "nil"
		}
		var fs []string
		for i := 0; i < st.NumFields(); i++ {
			f := st.Field(i)
			fv, ok := x.F[f.Name()]
			if !ok {
				continue
			}
			if _, opq := fv.(OpaqueVal); opq {
				continue
			}
			fs = append(fs, fmt.Sprintf("%s: %s", f.Name(), g.lit(f.Type(), fv, path+"."+f.Name())))
		}
		return fmt.Sprintf("%s{%s}", types.TypeString(t, qual), strings.Join(fs, ", "))
	case *SliceVal:
		n := int64(-1)
		if isConstTerm(x.Len) {
			n = parseBV(x.Len)
		} else if mv, ok := g.model[x.Len]; ok {
			n = parseBV(mv)
		}
		if n < 0 || n > 16 {
			g.ok = false
			g.why = fmt.Sprintf("slice %s has %d elements in the model", path, n)
			return "nil"
		}
		if x.Nil != "" && x.Nil != "false" {
			if g.model[x.Nil] == "true" && n == 0 {
				return "nil"
			}
		}
		var elemT types.Type
		switch u := t.Underlying().(type) {
		case *types.Slice:
			elemT = u.Elem()
		case *types.Array:
			elemT = u.Elem()
		}
		if elemT == nil || x.Opaque {
			g.ok = false
			g.why = "unmodelled slice " + path
			return "nil"
		}
		var es []string
		for k := int64(0); k < n; k++ {
			ep := fmt.Sprintf("%s[%d]", path, k)
			if len(x.Leaves) == 1 {
				if _, ok := x.Leaves[""]; ok {
					es = append(es, g.scalarLit(elemT, SV{"?", x.LeafSorts[""], x.LeafSign[""]}, ep))
					continue
				}
			}
			g.ok = false
			g.why = "struct-element slice " + path
			return "nil"
		}
		return fmt.Sprintf("%s{%s}", types.TypeString(t, qual), strings.Join(es, ", "))
	case *PtrVal:
		pt, ok := t.(*types.Pointer)
		if !ok {
			g.ok = false
			return "nil"
		}
		cv, ok := g.c.entry.cells[x.Cell]
		if !ok {
			g.ok = false
			return "nil"
		}
		return "&" + g.lit(pt.Elem(), cv, path)
	}
	g.ok = false
	g.why = fmt.Sprintf("input %s of type %v cannot be built from a model", path, t)
	return "nil"
}

// replaySource returns the Go test source that runs the real function on the model's inputs.
func (c *FnCtx) replaySource(model, elems map[string]string) (string, string) {
	if c.fn == nil {
		return "", "lemma (no code to run)"
	}
	g := &replayGen{c: c, model: model, elems: elems, hashes: map[string]int{}, ok: true}
	sig := c.fn.Type().(*types.Signature)
	var args []string
	recv := ""
	for i, in := range c.inputs {
		l := g.lit(in.Type, in.Val, in.Name)
		if i == 0 && sig.Recv() != nil {
			recv = l
			continue
		}
		args = append(args, l)
	}
	if !g.ok {
		return "", g.why
	}
	if sig.TypeParams() != nil && sig.TypeParams().Len() > 0 {
		return "", "generic function"
	}
	call := c.fn.Name() + "(" + strings.Join(args, ", ") + ")"
	if recv != "" {
		call = "(" + recv + ")." + call
	}
	nres := sig.Results().Len()
	var lhs []string
	for i := 0; i < nres; i++ {
		lhs = append(lhs, fmt.Sprintf("r%d", i))
	}
	assign := ""
	show := `""`
	if nres > 0 {
		assign = strings.Join(lhs, ", ") + " := "
		var parts []string
		for i := 0; i < nres; i++ {
			rt := sig.Results().At(i).Type()
			switch {
			case isErrorType(rt):
				parts = append(parts, fmt.Sprintf(`fmt.Sprintf("r%d=err:%%v", r%d != nil)`, i, i))
			case isBool(rt):
				parts = append(parts, fmt.Sprintf(`fmt.Sprintf("r%d=bool:%%v", r%d)`, i, i))
			default:
				if _, sg, ok := basicInfo(rt); ok {
					if sg {
						parts = append(parts, fmt.Sprintf(`fmt.Sprintf("r%d=int:%%d", int64(r%d))`, i, i))
					} else {
						parts = append(parts, fmt.Sprintf(`fmt.Sprintf("r%d=uint:%%d", uint64(r%d))`, i, i))
					}
				} else {
					parts = append(parts, fmt.Sprintf(`fmt.Sprintf("r%d=other:%%v", r%d)`, i, i))
				}
			}
		}
		show = strings.Join(parts, ` + " " + `)
	}
	src := fmt.Sprintf(`package utreexo

import (
	"fmt"
	"testing"
	"time"
)

// Generated by govc from a solver model: runs the real function on the counterexample inputs.
func TestVerifReplay(t *testing.T) {
	done := make(chan string, 1)
	go func() {
		defer func() {
			if r := recover(); r != nil {
				done <- fmt.Sprintf("PANIC %%v", r)
			}
		}()
		%s%s
		done <- "RETURN " + %s
	}()
	select {
	case s := <-done:
		fmt.Println("VERIF-REPLAY", s)
	case <-time.After(8 * time.Second):
		fmt.Println("VERIF-REPLAY HANG (no return within 8s)")
	}
}
`, assign, call, show)
	return src, ""
}

// ---------------------------------------------------------------------------
// Ground re-check: evaluates a failed postcondition on the values the REAL function returned for the
// model's inputs (scalar parameters and results only).
// ---------------------------------------------------------------------------

type groundReq struct {
	Func       string            `json:"func"`
	Obligation string            `json:"obligation"`
	Model      map[string]string `json:"model"`
	Observed   string            `json:"observed"`
}

func runGround(prog *Prog, req groundReq) string {
	c, err := prog.genFunc(req.Func)
	if err != nil || c.contract == nil {
		return "GROUND: not applicable (" + fmt.Sprint(err) + ")"
	}
	// which ensures clause?  obligation name <func>.post.<k>[#...]
	idx := -1
	if k := strings.Index(req.Obligation, ".post."); k >= 0 {
		rest := req.Obligation[k+6:]
		if h := strings.IndexAny(rest, "#."); h >= 0 {
			rest = rest[:h]
		}
		idx = atoi(rest) - 1
	}
	if idx < 0 || idx >= len(c.contract.Ensures) {
		return "GROUND: not applicable (not a postcondition)"
	}
	// pin inputs
	var pins []string
	vars := map[string]Val{}
	for i, in := range c.inputs {
		sv, ok := in.Val.(SV)
		if !ok {
			return "GROUND: not applicable (non-scalar parameter " + in.Name + ")"
		}
		val, ok := req.Model[sv.T]
		if !ok {
			return "GROUND: not applicable (no model value for " + in.Name + ")"
		}
		if sv.S.K == KHash {
			return "GROUND: not applicable (hash parameter)"
		}
		pins = append(pins, app("=", sv.T, val))
		vars[c.contract.Params[i]] = sv
	}
	// observed results
	sig := c.fn.Type().(*types.Signature)
	obs := strings.Fields(strings.TrimPrefix(req.Observed, "RETURN"))
	if len(obs) != sig.Results().Len() {
		return "GROUND: not applicable (cannot parse the observed results)"
	}
	for i, o := range obs {
		kv := strings.SplitN(o, "=", 2)
		if len(kv) != 2 {
			return "GROUND: not applicable (cannot parse " + o + ")"
		}
		tv := strings.SplitN(kv[1], ":", 2)
		if len(tv) != 2 {
			return "GROUND: not applicable (cannot parse " + o + ")"
		}
		rt := sig.Results().At(i).Type()
		var v Val
		switch tv[0] {
		case "err", "bool":
			v = SV{tv[1], SBool, false}
		case "int", "uint":
			w, sg, ok := basicInfo(rt)
			if !ok {
				return "GROUND: not applicable (result type)"
			}
			b, ok2 := new(big.Int).SetString(tv[1], 10)
			if !ok2 {
				return "GROUND: not applicable (result value)"
			}
			v = SV{bvConst(b, w), BV(w), sg}
		default:
			return "GROUND: not applicable (non-scalar result)"
		}
		if i < len(c.contract.Results) && c.contract.Results[i] != "_" {
			vars[c.contract.Results[i]] = v
		}
	}
	st := c.entry.clone()
	env := &CEnv{vars: vars, old: c.entry, oldV: vars}
	goal := c.evalClause(st, c.contract.Ensures[idx], env)
	var b strings.Builder
	b.WriteString(prog.Prelude)
	for _, s := range c.sortDecls {
		b.WriteString(s + "\n")
	}
	for _, l := range c.log {
		if strings.HasPrefix(l, "(declare-const") || strings.HasPrefix(l, "(define-fun") {
			b.WriteString(l + "\n")
		}
	}
	for _, p := range pins {
		b.WriteString("(assert " + p + ")\n")
	}
	b.WriteString("(assert " + not(goal) + ")\n(check-sat)\n")
	r := runSolver(solvers(20)[0], b.String(), 20)
	switch r.status {
	case "sat":
		return "GROUND: violated -- the real function's results for the model's inputs falsify: " + c.contract.Ensures[idx].Text
	case "unsat":
		return "GROUND: holds -- the real function satisfies the clause on the model's inputs (the model exploits an abstraction)"
	}
	return "GROUND: undecided (" + truncate(r.out, 200) + ")"
}
