package main

import (
	"fmt"
	"go/ast"
	"go/token"
	"go/types"
)

// Outcome of executing a statement list.
type Outcome struct {
	normal    *State
	breaks    []*State
	continues []*State
	alts      []*State // unmerged normal continuations (loop N: paths separate)
}

func (c *FnCtx) execBlock(st *State, stmts []ast.Stmt) Outcome {
	out := Outcome{}
	cur := st
	for i, s := range stmts {
		if cur == nil || cur.pc == "false" {
			break
		}
		o := c.execStmt(cur, s)
		out.breaks = append(out.breaks, o.breaks...)
		out.continues = append(out.continues, o.continues...)
		if len(o.alts) > 0 {
			// the rest of the block once per exit path of the loop
			var normals []*State
			for _, a := range o.alts {
				if a == nil || a.pc == "false" {
					continue
				}
				ro := c.execBlock(a, stmts[i+1:])
				out.breaks = append(out.breaks, ro.breaks...)
				out.continues = append(out.continues, ro.continues...)
				normals = append(normals, ro.normal)
			}
			out.normal = c.mergeStates(normals, "alts")
			return out
		}
		cur = o.normal
	}
	out.normal = cur
	return out
}

func (c *FnCtx) execStmt(st *State, s ast.Stmt) Outcome {
	c.curState = st
	switch x := s.(type) {
	case *ast.BlockStmt:
		return c.execBlock(st, x.List)
	case *ast.ExprStmt:
		if call, ok := x.X.(*ast.CallExpr); ok {
			c.evalCall(st, call)
		} else {
			c.eval(st, x.X)
		}
		return Outcome{normal: st}
	case *ast.AssignStmt:
		c.execAssign(st, x)
		return Outcome{normal: st}
	case *ast.IncDecStmt:
		v, _ := c.bvOf(c.eval(st, x.X), x.Pos())
		op := "bvadd"
		if x.Tok == token.DEC {
			op = "bvsub"
		}
		c.assignTo(st, x.X, SV{app(op, v.T, bvInt(1, v.S.W)), v.S, v.Signed})
		return Outcome{normal: st}
	case *ast.DeclStmt:
		gd, ok := x.Decl.(*ast.GenDecl)
		if !ok || gd.Tok != token.VAR {
			if ok && (gd.Tok == token.CONST || gd.Tok == token.TYPE) {
				return Outcome{normal: st}
			}
			c.unsupportedf(x.Pos(), "declaration")
			return Outcome{normal: st}
		}
		for _, sp := range gd.Specs {
			vs := sp.(*ast.ValueSpec)
			for i, n := range vs.Names {
				obj := c.prog.Info.Defs[n]
				if obj == nil {
					continue
				}
				if i < len(vs.Values) {
					st.env[obj] = c.copyVal(c.eval(st, vs.Values[i]))
				} else {
					st.env[obj] = c.zeroVal(obj.Type(), n.Name)
				}
			}
		}
		return Outcome{normal: st}
	case *ast.ReturnStmt:
		c.execReturn(st, x)
		return Outcome{}
	case *ast.IfStmt:
		return c.execIf(st, x)
	case *ast.ForStmt:
		return c.execFor(st, x)
	case *ast.RangeStmt:
		return c.execRange(st, x)
	case *ast.BranchStmt:
		if x.Label != nil {
			c.unsupportedf(x.Pos(), "labelled branch")
			return Outcome{}
		}
		switch x.Tok {
		case token.BREAK:
			return Outcome{breaks: []*State{st}}
		case token.CONTINUE:
			return Outcome{continues: []*State{st}}
		}
		c.unsupportedf(x.Pos(), "branch %s", x.Tok)
		return Outcome{}
	case *ast.DeferStmt:
		// only the unlock idiom is accepted (it has no effect on the data state)
		if sel, ok := x.Call.Fun.(*ast.SelectorExpr); ok {
			if sel.Sel.Name == "Unlock" || sel.Sel.Name == "RUnlock" {
				return Outcome{normal: st}
			}
		}
		c.unsupportedf(x.Pos(), "defer")
		return Outcome{normal: st}
	case *ast.EmptyStmt:
		return Outcome{normal: st}
	case *ast.SwitchStmt:
		return c.execSwitch(st, x)
	}
	c.unsupportedf(s.Pos(), "statement %T", s)
	return Outcome{normal: st}
}

// copyVal gives value semantics to struct/slice headers on assignment.
func (c *FnCtx) copyVal(v Val) Val {
	switch x := v.(type) {
	case *StructVal:
		n := &StructVal{TypeName: x.TypeName, F: map[string]Val{}, Order: x.Order}
		for k, f := range x.F {
			n.F[k] = c.copyVal(f)
		}
		return n
	case *SliceVal:
		return x.copyHdr()
	}
	return v
}

func (c *FnCtx) execAssign(st *State, x *ast.AssignStmt) {
	// op-assign
	if x.Tok != token.ASSIGN && x.Tok != token.DEFINE {
		binop := map[token.Token]token.Token{token.ADD_ASSIGN: token.ADD, token.SUB_ASSIGN: token.SUB, token.MUL_ASSIGN: token.MUL,
			token.QUO_ASSIGN: token.QUO, token.REM_ASSIGN: token.REM, token.AND_ASSIGN: token.AND, token.OR_ASSIGN: token.OR,
			token.XOR_ASSIGN: token.XOR, token.SHL_ASSIGN: token.SHL, token.SHR_ASSIGN: token.SHR, token.AND_NOT_ASSIGN: token.AND_NOT}[x.Tok]
		lv := c.eval(st, x.Lhs[0])
		rv := c.eval(st, x.Rhs[0])
		if _, isOpq := lv.(OpaqueVal); isOpq {
			return // string +=
		}
		var res Val
		if binop == token.SHL || binop == token.SHR {
			res = c.shift(st, binop, lv, rv, x.Pos())
		} else {
			l, ok1 := c.bvOf(lv, x.Pos())
			r, ok2 := c.bvOf(rv, x.Pos())
			if !ok1 || !ok2 {
				return
			}
			if l.S.W != r.S.W {
				// untyped constant on the right already has the left type via go/types; otherwise unsupported
				c.unsupportedf(x.Pos(), "op-assign widths differ")
				return
			}
			res = c.arith(st, binop, l, r, x.Pos())
		}
		c.assignTo(st, x.Lhs[0], res)
		return
	}
	var vals []Val
	if len(x.Rhs) == 1 && len(x.Lhs) > 1 {
		switch r := x.Rhs[0].(type) {
		case *ast.CallExpr:
			vals = c.evalCall(st, r)
		case *ast.IndexExpr: // v, ok := m[k]
			v := c.eval(st, r)
			vals = []Val{v, SV{c.fresh("ok", SBool), SBool, false}}
		case *ast.TypeAssertExpr:
			c.unsupportedf(x.Pos(), "type assertion")
			v, _ := c.freshVal(c.typeOf(x.Lhs[0]), "unk")
			vals = []Val{v, SV{c.fresh("ok", SBool), SBool, false}}
		default:
			c.unsupportedf(x.Pos(), "tuple assignment from %T", r)
		}
		if len(vals) != len(x.Lhs) {
			c.unsupportedf(x.Pos(), "tuple arity mismatch (%d values for %d targets)", len(vals), len(x.Lhs))
			for len(vals) < len(x.Lhs) {
				t := c.typeOf(x.Lhs[len(vals)])
				var v Val = OpaqueVal{t}
				if t != nil {
					v, _ = c.freshVal(t, "unk")
				}
				vals = append(vals, v)
			}
		}
	} else {
		// all right-hand sides are evaluated before any assignment (swap idiom)
		for _, r := range x.Rhs {
			vals = append(vals, c.copyVal(c.eval(st, r)))
		}
	}
	for i, l := range x.Lhs {
		if i >= len(vals) {
			break
		}
		if id, ok := l.(*ast.Ident); ok {
			if id.Name == "_" {
				continue
			}
			if x.Tok == token.DEFINE {
				if obj := c.prog.Info.Defs[id]; obj != nil {
					st.env[obj] = c.coerce(vals[i], obj.Type())
					continue
				}
			}
		}
		c.assignTo(st, l, vals[i])
	}
}

// coerce adapts a value to a declared type (untracked -> fresh of the right shape is NOT done here;
// only nil/opaque fix-ups).
func (c *FnCtx) coerce(v Val, t types.Type) Val {
	if o, ok := v.(OpaqueVal); ok && o.T == nil && t != nil {
		return c.zeroVal(t, "nil")
	}
	return v
}

// assignTo stores v into the location denoted by lhs.
func (c *FnCtx) assignTo(st *State, lhs ast.Expr, v Val) {
	switch l := lhs.(type) {
	case *ast.ParenExpr:
		c.assignTo(st, l.X, v)
	case *ast.Ident:
		if l.Name == "_" {
			return
		}
		obj := c.prog.Info.ObjectOf(l)
		if obj == nil {
			c.unsupportedf(l.Pos(), "assignment to unknown %s", l.Name)
			return
		}
		if _, ok := obj.(*types.Var); ok && obj.Parent() == c.prog.Pkg.Scope() {
			c.unsupportedf(l.Pos(), "assignment to package variable %s", l.Name)
			return
		}
		st.env[obj] = c.copyVal(c.coerce(v, obj.Type()))
	case *ast.SelectorExpr:
		base := c.eval(st, l.X)
		switch b := base.(type) {
		case *PtrVal:
			c.oblige(st, "nil", l.Pos(), b.NonNil, "nil pointer dereference")
			cell, ok := st.cells[b.Cell].(*StructVal)
			if !ok {
				c.unsupportedf(l.Pos(), "store through untracked pointer")
				return
			}
			n := c.copyVal(cell).(*StructVal)
			if !setField(n, l.Sel.Name, c.copyVal(v)) {
				c.unsupportedf(l.Pos(), "field %s not modelled", l.Sel.Name)
			}
			st.cells[b.Cell] = n
		case *StructVal:
			if _, isElem := b.F["$nonnil"]; isElem {
				c.unsupportedf(l.Pos(), "store through element pointer")
				return
			}
			n := c.copyVal(b).(*StructVal)
			if !setField(n, l.Sel.Name, c.copyVal(v)) {
				c.unsupportedf(l.Pos(), "field %s not modelled", l.Sel.Name)
			}
			c.assignTo(st, l.X, n)
		default:
			c.unsupportedf(l.Pos(), "field store on %T", base)
		}
	case *ast.IndexExpr:
		base := c.eval(st, l.X)
		switch b := base.(type) {
		case *SliceVal:
			idx, nonneg := c.toIndex(c.eval(st, l.Index), l.Index.Pos())
			idx = c.define("idx", S64, idx)
			c.oblige(st, "bounds", l.Pos(), and(nonneg, app("bvslt", idx, b.Len)), "index out of range (store)")
			n := b.copyHdr()
			c.storeElem(n, idx, v)
			c.writeBack(st, l.X, n)
		case OpaqueVal:
			// map store: not modelled (maps from make are non-nil)
			c.eval(st, l.Index)
		case SV:
			kv, kok := c.eval(st, l.Index).(SV)
			vv, vok := v.(SV)
			id, isId := l.X.(*ast.Ident)
			if b.S.K == KArray && kok && vok && isId && kv.S.K == KBV && vv.S.K == KBV {
				n := SV{c.define("map", b.S, app("store", b.T, resize(kv.T, kv.S.W, 64, kv.Signed), resize(vv.T, vv.S.W, b.S.Elem.W, vv.Signed))), b.S, b.Signed}
				st.env[c.prog.Info.ObjectOf(id)] = n
				return
			}
			c.unsupportedf(l.Pos(), "index store on scalar")
		default:
			c.unsupportedf(l.Pos(), "index store on %T", base)
		}
	case *ast.StarExpr:
		pv := c.eval(st, l.X)
		if p, ok := pv.(*PtrVal); ok {
			c.oblige(st, "nil", l.Pos(), p.NonNil, "nil pointer dereference")
			st.cells[p.Cell] = c.copyVal(v)
			return
		}
		c.unsupportedf(l.Pos(), "store through untracked pointer")
	default:
		c.unsupportedf(lhs.Pos(), "assignment target %T", lhs)
	}
}

func setField(s *StructVal, name string, v Val) bool {
	if _, ok := s.F[name]; ok {
		s.F[name] = v
		return true
	}
	for _, f := range s.Order {
		if inner, ok := s.F[f].(*StructVal); ok {
			if _, ok := inner.F[name]; ok {
				inner.F[name] = v
				return true
			}
		}
	}
	return false
}

// writeBack stores an updated slice value into the variable/field a slice expression denotes.
// The target may be a reslice (x[j:]) in which case only the contents (leaf arrays) are written back.
func (c *FnCtx) writeBack(st *State, target ast.Expr, n *SliceVal) {
	switch t := target.(type) {
	case *ast.ParenExpr:
		c.writeBack(st, t.X, n)
	case *ast.SliceExpr:
		// contents of the underlying variable change; its header does not
		if hv, isHash := c.eval(st, t.X).(SV); isHash && hv.S.K == KHash {
			// writing through h[:] changes the hash to an unknown value
			c.assignTo(st, t.X, SV{c.fresh("hash_written", SHash), SHash, false})
			return
		}
		base, ok := c.eval(st, t.X).(*SliceVal)
		if !ok {
			c.unsupportedf(target.Pos(), "write through slice of %T", target)
			return
		}
		nb := base.copyHdr()
		nb.Leaves = n.Leaves
		c.writeBack(st, t.X, nb)
	case *ast.Ident, *ast.SelectorExpr:
		c.assignTo(st, target, n)
	case *ast.IndexExpr:
		// element of an opaque slice of slices: not modelled
		if b, ok := c.eval(st, t.X).(*SliceVal); ok && b.Opaque {
			return
		}
		c.unsupportedf(target.Pos(), "write through %T", target)
	default:
		c.unsupportedf(target.Pos(), "write through %T", target)
	}
}

func (c *FnCtx) execReturn(st *State, x *ast.ReturnStmt) {
	var vals []Val
	c.inReturn = true
	defer func() { c.inReturn = false }()
	if len(x.Results) == 0 {
		// named results
		for _, o := range c.resObjs {
			if o != nil {
				vals = append(vals, st.env[o])
			}
		}
	} else if len(x.Results) == 1 && len(c.resTypes) > 1 {
		if call, ok := x.Results[0].(*ast.CallExpr); ok {
			vals = c.evalCall(st, call)
		}
	} else {
		for i, r := range x.Results {
			v := c.eval(st, r)
			if i < len(c.resTypes) {
				v = c.coerceRet(v, c.resTypes[i])
			}
			vals = append(vals, c.copyVal(v))
		}
	}
	c.rets = append(c.rets, st)
	c.retVals = append(c.retVals, vals)
}

func (c *FnCtx) coerceRet(v Val, t types.Type) Val {
	// returning nil for a slice / error
	if o, ok := v.(OpaqueVal); ok && o.T == nil {
		return c.zeroVal(t, "ret")
	}
	return v
}

func (c *FnCtx) execIf(st *State, x *ast.IfStmt) Outcome {
	if x.Init != nil {
		o := c.execStmt(st, x.Init)
		st = o.normal
		if st == nil {
			return Outcome{}
		}
	}
	cond := c.boolOf(c.eval(st, x.Cond), x.Cond.Pos())
	cond = c.define("c", SBool, cond)
	tst := st.clone()
	tst.pc = c.pcAnd(st, cond)
	fst := st.clone()
	fst.pc = c.pcAnd(st, not(cond))
	to := c.execBlock(tst, x.Body.List)
	fo := Outcome{normal: fst}
	if x.Else != nil {
		fo = c.execStmt(fst, x.Else)
	}
	out := Outcome{}
	out.breaks = append(to.breaks, fo.breaks...)
	out.continues = append(to.continues, fo.continues...)
	out.normal = c.mergeStates([]*State{to.normal, fo.normal}, "if")
	return out
}

func (c *FnCtx) execSwitch(st *State, x *ast.SwitchStmt) Outcome {
	if x.Init != nil {
		st = c.execStmt(st, x.Init).normal
	}
	var tag Val
	if x.Tag != nil {
		tag = c.eval(st, x.Tag)
	}
	out := Outcome{}
	var normals []*State
	rest := st
	var def *ast.CaseClause
	for _, cl := range x.Body.List {
		cc := cl.(*ast.CaseClause)
		if cc.List == nil {
			def = cc
			continue
		}
		var conds []string
		for _, e := range cc.List {
			if tag != nil {
				ev := c.eval(rest, e)
				a, ok1 := tag.(SV)
				b, ok2 := ev.(SV)
				if !ok1 || !ok2 {
					c.unsupportedf(e.Pos(), "switch on non-scalar")
					return Outcome{normal: st}
				}
				conds = append(conds, app("=", a.T, b.T))
			} else {
				conds = append(conds, c.boolOf(c.eval(rest, e), e.Pos()))
			}
		}
		cond := c.define("sw", SBool, or(conds...))
		tst := rest.clone()
		tst.pc = c.pcAnd(rest, cond)
		o := c.execBlock(tst, cc.Body)
		normals = append(normals, o.normal)
		normals = append(normals, o.breaks...) // break leaves the switch
		out.continues = append(out.continues, o.continues...)
		nr := rest.clone()
		nr.pc = c.pcAnd(rest, not(cond))
		rest = nr
	}
	if def != nil {
		o := c.execBlock(rest, def.Body)
		normals = append(normals, o.normal)
		normals = append(normals, o.breaks...)
		out.continues = append(out.continues, o.continues...)
	} else {
		normals = append(normals, rest)
	}
	out.normal = c.mergeStates(normals, "sw")
	return out
}

// ---------------------------------------------------------------------------
// Loops
// ---------------------------------------------------------------------------

func (c *FnCtx) loopSpec(s ast.Stmt) (int, *LoopSpec) {
	n := c.loopOf[s]
	if c.contract != nil {
		if ls, ok := c.contract.Loops[n]; ok {
			return n, ls
		}
	}
	return n, &LoopSpec{}
}

// numberLoops assigns pre-order ordinals to the for/range statements of the function body.
func (c *FnCtx) numberLoops(body *ast.BlockStmt) {
	n := 0
	ast.Inspect(body, func(nd ast.Node) bool {
		switch s := nd.(type) {
		case *ast.FuncLit:
			return false
		case *ast.ForStmt:
			n++
			c.loopOf[s] = n
		case *ast.RangeStmt:
			n++
			c.loopOf[s] = n
		}
		return true
	})
}

// assignedIn collects the variables (objects) and pointer cells possibly modified by a statement.
func (c *FnCtx) assignedIn(st *State, body ast.Node, extra ...ast.Node) (map[types.Object]bool, bool) {
	objs := map[types.Object]bool{} // true: fully assigned; false: only element writes (contents change, header kept)
	cells := false
	root := func(e ast.Expr) {
		contentsOnly := false
		for {
			switch x := e.(type) {
			case *ast.ParenExpr:
				e = x.X
				continue
			case *ast.SelectorExpr:
				e = x.X
				contentsOnly = false
				continue
			case *ast.IndexExpr:
				// whatever is written above an index (a[i] = v, a[i].f = v) changes the contents of the indexed value only
				contentsOnly = true
				e = x.X
				continue
			case *ast.SliceExpr:
				contentsOnly = true
				e = x.X
				continue
			case *ast.StarExpr:
				e = x.X
				continue
			case *ast.Ident:
				if o := c.prog.Info.ObjectOf(x); o != nil {
					if contentsOnly {
						if _, seen := objs[o]; !seen {
							objs[o] = false
						}
					} else {
						objs[o] = true
					}
					if _, isPtr := o.Type().Underlying().(*types.Pointer); isPtr {
						cells = true
					}
				}
			}
			return
		}
	}
	visit := func(nd ast.Node) bool {
		switch s := nd.(type) {
		case *ast.AssignStmt:
			for _, l := range s.Lhs {
				root(l)
			}
		case *ast.IncDecStmt:
			root(s.X)
		case *ast.RangeStmt:
			if s.Key != nil {
				root(s.Key)
			}
			if s.Value != nil {
				root(s.Value)
			}
		case *ast.CallExpr:
			// pointer-receiver method on an addressable variable, copy(dst,..), modifies-parameters, closures
			if sel, ok := s.Fun.(*ast.SelectorExpr); ok {
				if selInfo := c.prog.Info.Selections[sel]; selInfo != nil && selInfo.Kind() == types.MethodVal {
					if sig, ok := selInfo.Obj().Type().(*types.Signature); ok && sig.Recv() != nil {
						if _, isPtr := sig.Recv().Type().(*types.Pointer); isPtr {
							root(sel.X)
						}
					}
				}
			}
			if id, ok := s.Fun.(*ast.Ident); ok && (id.Name == "copy" || id.Name == "delete") && len(s.Args) > 0 {
				root(&ast.IndexExpr{X: s.Args[0]})
			}
			if key := c.calleeKey(s); key != "" {
				if ct := c.prog.Contracts.ByKey[key]; ct != nil && len(ct.Modifies) > 0 {
					for i, pn := range c.calleeParamNames(ct, s) {
						for _, m := range ct.Modifies {
							if m == pn && i < len(s.Args) {
								root(&ast.IndexExpr{X: s.Args[i]})
							}
						}
					}
				}
			}
			if name := c.externName(s); name == "Reader.Read" || name == "io.ReadFull" || name == "Writer.Write" {
				for _, o := range c.ghostObjs {
					objs[o] = true
				}
				if len(s.Args) > 0 {
					root(&ast.IndexExpr{X: s.Args[len(s.Args)-1]})
				}
			}
			// sort.Slice / slices.Sort / sort.Sort modify their argument
			if name := c.externName(s); name == "sort.Slice" || name == "slices.Sort" || name == "sort.Sort" || name == "slices.SortFunc" {
				if len(s.Args) > 0 {
					root(&ast.IndexExpr{X: s.Args[0]})
				}
			}
		case *ast.FuncLit:
			// variables assigned inside closures
			ast.Inspect(s.Body, func(n2 ast.Node) bool {
				if a, ok := n2.(*ast.AssignStmt); ok {
					for _, l := range a.Lhs {
						root(l)
					}
				}
				if a, ok := n2.(*ast.IncDecStmt); ok {
					root(a.X)
				}
				return true
			})
		}
		return true
	}
	ast.Inspect(body, visit)
	for _, e := range extra {
		if e != nil {
			ast.Inspect(e, visit)
		}
	}
	return objs, cells
}

// havoc replaces the given variables by fresh values of the same type.
func (c *FnCtx) havoc(st *State, objs map[types.Object]bool, cells bool, hint string) {
	keys := make([]types.Object, 0, len(objs))
	for o := range objs {
		if _, ok := st.env[o]; ok {
			keys = append(keys, o)
		}
	}
	sortObjs(keys)
	for _, o := range keys {
		old := st.env[o]
		if p, isPtr := old.(*PtrVal); isPtr {
			// the pointer itself may be reassigned; keep it but havoc its cell
			if cv, ok := st.cells[p.Cell]; ok {
				st.cells[p.Cell] = c.havocLike(st, cv, o.Name()+"_cell")
			}
			continue
		}
		if !objs[o] {
			// only elements were written: keep the header
			if sl, ok := old.(*SliceVal); ok {
				h := c.havocLike(st, sl, o.Name()).(*SliceVal)
				n := sl.copyHdr()
				n.Leaves = h.Leaves
				st.env[o] = n
				continue
			}
		}
		st.env[o] = c.havocLike(st, old, o.Name())
	}
}

// havocLike makes a fresh value of the same shape as old.
func (c *FnCtx) havocLike(st *State, old Val, hint string) Val {
	switch x := old.(type) {
	case SV:
		return SV{c.fresh(hint, x.S), x.S, x.Signed}
	case *StructVal:
		n := &StructVal{TypeName: x.TypeName, F: map[string]Val{}, Order: x.Order}
		for _, f := range x.Order {
			n.F[f] = c.havocLike(st, x.F[f], hint+"_"+f)
		}
		return n
	case *SliceVal:
		fixed := ""
		if isConstTerm(x.Len) && x.Len == x.Cap && x.Off == "" {
			if _, isArr := x.Elem.(*types.Array); isArr {
				fixed = x.Len
			}
		}
		v, wf := c.freshSlice(x.Elem, hint, fixed)
		for _, f := range wf {
			c.assume(st, f)
		}
		s := v.(*SliceVal)
		if x.Nil != "" {
			s.Nil = c.fresh(hint+"_nil", SBool)
			c.assume(st, implies(s.Nil, and(app("=", s.Len, bvInt(0, 64)), app("=", s.Cap, bvInt(0, 64)))))
		}
		return s
	}
	return old
}

func isConstTerm(t string) bool { return len(t) > 2 && t[0] == '#' }

func sortObjs(keys []types.Object) {
	for i := 1; i < len(keys); i++ {
		for j := i; j > 0 && keys[j].Pos() < keys[j-1].Pos(); j-- {
			keys[j], keys[j-1] = keys[j-1], keys[j]
		}
	}
}

func (c *FnCtx) execFor(st *State, x *ast.ForStmt) Outcome {
	n, spec := c.loopSpec(x)
	if x.Init != nil {
		st = c.execStmt(st, x.Init).normal
		if st == nil {
			return Outcome{}
		}
	}
	condFn := func(s *State) string {
		if x.Cond == nil {
			return "true"
		}
		return c.define("lc", SBool, c.boolOf(c.eval(s, x.Cond), x.Cond.Pos()))
	}
	postFn := func(s *State) *State {
		if x.Post == nil || s == nil {
			return s
		}
		return c.execStmt(s, x.Post).normal
	}
	bodyFn := func(s *State) Outcome { return c.execBlock(s, x.Body.List) }
	var extra []ast.Node
	if x.Post != nil {
		extra = append(extra, x.Post)
	}
	if x.Cond != nil {
		extra = append(extra, x.Cond)
	}
	return c.loop(st, n, spec, x, x.Body, extra, condFn, bodyFn, postFn, nil)
}

func (c *FnCtx) execRange(st *State, x *ast.RangeStmt) Outcome {
	n, spec := c.loopSpec(x)
	rv := c.eval(st, x.X)
	var keyObj, valObj types.Object
	if id, ok := x.Key.(*ast.Ident); ok && id.Name != "_" {
		keyObj = c.prog.Info.ObjectOf(id)
	} else if x.Key != nil {
		if _, ok := x.Key.(*ast.Ident); !ok {
			c.unsupportedf(x.Pos(), "range with non-identifier key")
		}
	}
	if id, ok := x.Value.(*ast.Ident); ok && id.Name != "_" {
		valObj = c.prog.Info.ObjectOf(id)
	} else if x.Value != nil {
		if _, ok := x.Value.(*ast.Ident); !ok {
			c.unsupportedf(x.Pos(), "range with non-identifier value")
		}
	}
	switch r := rv.(type) {
	case *SliceVal:
		// hidden index; the length is evaluated once
		idxObj := types.NewVar(x.Pos(), c.prog.Pkg, fmt.Sprintf("$i%d", n), types.Typ[types.Int])
		lenObj := types.NewVar(x.Pos(), c.prog.Pkg, fmt.Sprintf("$n%d", n), types.Typ[types.Int])
		entryLen := r.Len
		st.env[idxObj] = SV{bvInt(0, 64), S64, true}
		st.env[lenObj] = SV{entryLen, S64, true}
		// the range expression must not be re-assigned in the body when it is a variable (see DESIGN 2.3)
		condFn := func(s *State) string {
			return c.define("lc", SBool, app("bvslt", s.env[idxObj].(SV).T, entryLen))
		}
		bodyFn := func(s *State) Outcome {
			i := s.env[idxObj].(SV)
			if keyObj != nil {
				s.env[keyObj] = i
			}
			if valObj != nil {
				cur := r
				// element reads see the current contents when the range expression is a plain variable/field
				if cv, ok := c.tryEvalQuiet(s, x.X).(*SliceVal); ok {
					cur = cv
				}
				s.env[valObj] = c.copyVal(c.elemAt(cur, i.T, "rv"))
			}
			return c.execBlock(s, x.Body.List)
		}
		postFn := func(s *State) *State {
			if s == nil {
				return nil
			}
			i := s.env[idxObj].(SV)
			s.env[idxObj] = SV{c.define("i", S64, app("bvadd", i.T, bvInt(1, 64))), S64, true}
			if keyObj != nil {
				s.env[keyObj] = s.env[idxObj] // invariants speak about the key variable as "next index"
			}
			return s
		}
		auto := func(s *State) string {
			i := s.env[idxObj].(SV)
			if keyObj != nil {
				s.env[keyObj] = i
			}
			return and(app("bvsle", bvInt(0, 64), i.T), app("bvsle", i.T, entryLen))
		}
		if keyObj != nil {
			st.env[keyObj] = SV{bvInt(0, 64), S64, true}
		}
		if valObj != nil {
			st.env[valObj] = c.zeroVal(valObj.Type(), valObj.Name())
		}
		out := c.loop(st, n, spec, x, x.Body, nil, condFn, bodyFn, postFn, &autoInv{objs: []types.Object{idxObj}, inv: auto, measure: func(s *State) string {
			return app("bvsub", entryLen, s.env[idxObj].(SV).T)
		}})
		if out.normal != nil {
			delete(out.normal.env, idxObj)
			delete(out.normal.env, lenObj)
		}
		return out
	case OpaqueVal:
		// range over a map (or untracked): unknown number of iterations, key/value arbitrary
		condV := ""
		condFn := func(s *State) string {
			condV = c.fresh("more", SBool)
			return condV
		}
		bodyFn := func(s *State) Outcome {
			if keyObj != nil {
				v, wf := c.freshVal(keyObj.Type(), keyObj.Name())
				for _, f := range wf {
					c.assume(s, f)
				}
				s.env[keyObj] = v
			}
			if valObj != nil {
				v, wf := c.freshVal(valObj.Type(), valObj.Name())
				for _, f := range wf {
					c.assume(s, f)
				}
				s.env[valObj] = v
			}
			return c.execBlock(s, x.Body.List)
		}
		if keyObj != nil {
			st.env[keyObj] = c.zeroVal(keyObj.Type(), keyObj.Name())
		}
		if valObj != nil {
			st.env[valObj] = c.zeroVal(valObj.Type(), valObj.Name())
		}
		return c.loop(st, n, spec, x, x.Body, nil, condFn, bodyFn, func(s *State) *State { return s }, &autoInv{inv: func(*State) string { return "true" }, noMeasure: true})
	}
	c.unsupportedf(x.Pos(), "range over %T", rv)
	return Outcome{normal: st}
}

// tryEvalQuiet evaluates a pure variable/field path without recording obligations.
func (c *FnCtx) tryEvalQuiet(st *State, e ast.Expr) Val {
	switch x := e.(type) {
	case *ast.Ident:
		if o := c.prog.Info.ObjectOf(x); o != nil {
			return st.env[o]
		}
	case *ast.SelectorExpr:
		b := c.tryEvalQuiet(st, x.X)
		switch bv := b.(type) {
		case *StructVal:
			return bv.F[x.Sel.Name]
		case *PtrVal:
			if cell, ok := st.cells[bv.Cell].(*StructVal); ok {
				return cell.F[x.Sel.Name]
			}
		}
	}
	return nil
}

type autoInv struct {
	objs      []types.Object
	inv       func(*State) string
	measure   func(*State) string
	noMeasure bool
}

// loop implements both strategies: cut at invariants, or complete unrolling with an unwinding assertion.
func (c *FnCtx) loop(st *State, n int, spec *LoopSpec, node ast.Stmt, body ast.Node, extra []ast.Node,
	condFn func(*State) string, bodyFn func(*State) Outcome, postFn func(*State) *State, auto *autoInv) Outcome {

	pos := node.Pos()
	if spec.Unroll > 0 {
		var exits []*State
		cur := st
		for k := 0; k < spec.Unroll && cur != nil && cur.pc != "false"; k++ {
			cond := condFn(cur)
			ex := cur.clone()
			ex.pc = c.pcAnd(cur, not(cond))
			exits = append(exits, ex)
			in := cur.clone()
			in.pc = c.pcAnd(cur, cond)
			o := bodyFn(in)
			exits = append(exits, o.breaks...)
			nx := c.mergeStates(append([]*State{o.normal}, o.continues...), fmt.Sprintf("l%d", n))
			cur = postFn(nx)
		}
		if cur != nil && cur.pc != "false" {
			cond := condFn(cur)
			c.obligeNamed(cur, fmt.Sprintf("unwind.loop%d", n), "unwind", pos, not(cond),
				fmt.Sprintf("loop %d exits within %d iterations (unwinding assertion)", n, spec.Unroll))
			ex := cur.clone()
			ex.pc = c.pcAnd(cur, not(cond))
			exits = append(exits, ex)
		}
		return Outcome{normal: c.mergeStates(exits, fmt.Sprintf("x%d", n))}
	}

	// --- invariant strategy ---
	// 1. invariants hold on entry
	for k, inv := range spec.Invariants {
		g := c.evalClause(st, inv, nil)
		c.obligeNamed(st, fmt.Sprintf("inv-entry.loop%d.%d", n, k+1), "inv-entry", pos, g, "loop invariant holds on entry: "+inv.Text)
	}
	// 2. havoc everything the loop may assign
	objs, cells := c.assignedIn(st, body, extra...)
	if auto != nil {
		for _, o := range auto.objs {
			objs[o] = true
		}
	}
	head := st.clone()
	c.havoc(head, objs, cells, fmt.Sprintf("l%d", n))
	if auto != nil {
		c.assume(head, auto.inv(head))
	}
	for _, inv := range spec.Invariants {
		c.assume(head, c.evalClause(head, inv, nil))
	}
	for _, u := range spec.Uses {
		c.useLemma(head, u)
	}
	for _, a := range spec.Assumes {
		c.assume(head, c.evalClause(head, a, nil))
		c.assumptions[fmt.Sprintf("loop %d: assumed, not proved: %s", n, a.Text)] = true
	}
	var m0 string
	var m0s []string
	if spec.Decreases != nil {
		mv, _ := c.bvOf(c.evalCExpr(head, spec.Decreases.Expr, nil), pos)
		m0 = c.define("measure", mv.S, mv.T)
		for _, d := range spec.DecreasesLex {
			dv, _ := c.bvOf(c.evalCExpr(head, d.Expr, nil), pos)
			m0s = append(m0s, c.define("measure", dv.S, dv.T))
		}
	}
	cond := condFn(head)
	in := head.clone()
	in.pc = c.pcAnd(head, cond)
	exit := head.clone()
	exit.pc = c.pcAnd(head, not(cond))
	o := bodyFn(in)
	nx := c.mergeStates(append([]*State{o.normal}, o.continues...), fmt.Sprintf("l%d", n))
	nx = postFn(nx)
	if nx != nil && nx.pc != "false" {
		for k, inv := range spec.Invariants {
			g := c.evalClause(nx, inv, nil)
			c.obligeNamed(nx, fmt.Sprintf("inv-step.loop%d.%d", n, k+1), "inv-step", pos, g, "loop invariant preserved: "+inv.Text)
		}
		if spec.Decreases != nil {
			mv, _ := c.bvOf(c.evalCExpr(nx, spec.Decreases.Expr, nil), pos)
			g := and(app("bvsge", m0, bvInt(0, mv.S.W)), app("bvslt", mv.T, m0))
			if len(spec.DecreasesLex) > 1 {
				// lexicographic: some component decreases (and is bounded below) while all earlier ones are unchanged
				var alts []string
				eqs := []string{}
				for k, d := range spec.DecreasesLex {
					dv, _ := c.bvOf(c.evalCExpr(nx, d.Expr, nil), pos)
					alts = append(alts, and(append(append([]string{}, eqs...), app("bvsge", m0s[k], bvInt(0, dv.S.W)), app("bvslt", dv.T, m0s[k]))...))
					eqs = append(eqs, app("=", dv.T, m0s[k]))
				}
				g = or(alts...)
			}
			c.obligeNamed(nx, fmt.Sprintf("decreases.loop%d", n), "decreases", pos, g, "loop measure is non-negative and decreases: "+spec.Decreases.Text)
		} else if auto != nil && auto.measure != nil {
			// range loops terminate by construction (hidden index)
		} else if auto == nil || !auto.noMeasure {
			c.noMeasure = append(c.noMeasure, fmt.Sprintf("loop %d", n))
		}
	}
	if spec.NoMerge {
		return Outcome{alts: append([]*State{exit}, o.breaks...)}
	}
	return Outcome{normal: c.mergeStates(append([]*State{exit}, o.breaks...), fmt.Sprintf("x%d", n))}
}

// useLemma assumes an instance of a separately proved lemma:  use name(args).
func (c *FnCtx) useLemma(st *State, u Clause) {
	call, ok := u.Expr.(*ast.CallExpr)
	if !ok {
		c.unsupportedf(token.NoPos, "use: expected lemma(args)")
		return
	}
	name := call.Fun.(*ast.Ident).Name
	ct := c.prog.Contracts.ByKey["lemma:"+name]
	if ct == nil {
		c.unsupportedf(token.NoPos, "use: unknown lemma %s", name)
		return
	}
	c.usedLemmas["lemma:"+name] = true
	vars := map[string]Val{}
	i := 0
	for _, f := range ct.Decl.Type.Params.List {
		tn := types.ExprString(f.Type)
		for range f.Names {
			var want *SV
			if cw, ok := convWidths[tn]; ok {
				want = &SV{"", BV(cw.w), cw.sg}
			}
			if i < len(call.Args) {
				vars[ct.Params[i]] = c.mat(c.ce(st, call.Args[i], c.cenvDefault(nil), want), want)
			}
			i++
		}
	}
	env := &CEnv{vars: vars, old: st, oldV: vars}
	var hyps, concl []string
	for _, rq := range ct.Requires {
		hyps = append(hyps, c.evalClause(st, rq, env))
	}
	for _, en := range ct.Ensures {
		concl = append(concl, c.evalClause(st, en, env))
	}
	c.assume(st, implies(and(hyps...), and(concl...)))
}
