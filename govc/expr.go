package main

import (
	"fmt"
	"go/ast"
	"go/constant"
	"go/token"
	"go/types"
	"math/big"
)

func (c *FnCtx) typeOf(e ast.Expr) types.Type { return c.prog.Info.TypeOf(e) }

// constVal renders a compile-time constant of type t.
func (c *FnCtx) constVal(v constant.Value, t types.Type, pos token.Pos) Val {
	switch v.Kind() {
	case constant.Bool:
		if constant.BoolVal(v) {
			return SV{"true", SBool, false}
		}
		return SV{"false", SBool, false}
	case constant.Int:
		w, sg, ok := basicInfo(t)
		if !ok {
			c.unsupportedf(pos, "integer constant of type %v", t)
			return OpaqueVal{t}
		}
		bi, _ := new(big.Int).SetString(v.ExactString(), 10)
		return SV{bvConst(bi, w), BV(w), sg}
	}
	return OpaqueVal{t}
}

func (c *FnCtx) zeroVal(t types.Type, hint string) Val {
	if s, sg, ok := c.scalarSort(t); ok {
		switch s.K {
		case KBool:
			return SV{"false", SBool, false} // also nil error
		case KBV:
			return SV{bvInt(0, s.W), s, sg}
		case KHash:
			return SV{"empty", SHash, false}
		default:
			return SV{c.fresh(hint+"_zero", s), s, sg}
		}
	}
	switch u := t.Underlying().(type) {
	case *types.Slice:
		return c.nilSlice(u.Elem(), hint)
	case *types.Array:
		sl, _ := c.freshSlice(u.Elem(), hint, bvInt(u.Len(), 64))
		s := sl.(*SliceVal)
		c.zeroFill(s)
		return s
	case *types.Struct:
		sv := &StructVal{TypeName: t.String(), F: map[string]Val{}}
		for i := 0; i < u.NumFields(); i++ {
			f := u.Field(i)
			sv.F[f.Name()] = c.zeroVal(f.Type(), hint+"_"+f.Name())
			sv.Order = append(sv.Order, f.Name())
		}
		return sv
	}
	return OpaqueVal{t}
}

func (c *FnCtx) zeroTerm(s Sort) string {
	switch s.K {
	case KBool:
		return "false"
	case KBV:
		return bvInt(0, s.W)
	case KHash:
		return "empty"
	}
	return ""
}

// zeroFill sets all leaves of a slice to constant-zero arrays.
func (c *FnCtx) zeroFill(s *SliceVal) {
	for p, srt := range s.LeafSorts {
		z := c.zeroTerm(srt)
		if z == "" {
			continue
		}
		s.Leaves[p] = fmt.Sprintf("((as const %s) %s)", ArrayOf(srt).String(), z)
	}
}

func (c *FnCtx) nilSlice(elem types.Type, hint string) *SliceVal {
	v, _ := c.freshSlice(elem, hint, bvInt(0, 64))
	s := v.(*SliceVal)
	s.Nil = "true"
	return s
}

// boolOf extracts the Bool term of a value.
func (c *FnCtx) boolOf(v Val, pos token.Pos) string {
	if s, ok := v.(SV); ok && s.S.K == KBool {
		return s.T
	}
	c.unsupportedf(pos, "expected a boolean value")
	return c.fresh("unk", SBool)
}

func (c *FnCtx) bvOf(v Val, pos token.Pos) (SV, bool) {
	if s, ok := v.(SV); ok && s.S.K == KBV {
		return s, true
	}
	c.unsupportedf(pos, "expected an integer value, got %T", v)
	return SV{c.fresh("unk", S64), S64, false}, false
}

// toIndex converts an integer value to a BV64 index term (Go requires a non-negative int-representable index).
func (c *FnCtx) toIndex(v Val, pos token.Pos) (term string, nonneg string) {
	s, _ := c.bvOf(v, pos)
	t := resize(s.T, s.S.W, 64, s.Signed)
	if s.Signed {
		return t, app("bvsle", bvInt(0, 64), t)
	}
	if s.S.W == 64 {
		// unsigned 64 used as index must fit in int
		return t, app("bvsle", bvInt(0, 64), t)
	}
	return t, "true"
}

func (c *FnCtx) eval(st *State, e ast.Expr) Val {
	if tv, ok := c.prog.Info.Types[e]; ok && tv.Value != nil {
		return c.constVal(tv.Value, tv.Type, e.Pos())
	}
	switch x := e.(type) {
	case *ast.ParenExpr:
		return c.eval(st, x.X)
	case *ast.Ident:
		return c.evalIdent(st, x)
	case *ast.BasicLit:
		return OpaqueVal{c.typeOf(e)}
	case *ast.BinaryExpr:
		return c.evalBinary(st, x)
	case *ast.UnaryExpr:
		return c.evalUnary(st, x)
	case *ast.StarExpr:
		pv := c.eval(st, x.X)
		if p, ok := pv.(*PtrVal); ok {
			c.oblige(st, "nil", x.Pos(), p.NonNil, "nil pointer dereference")
			return st.cells[p.Cell]
		}
		c.unsupportedf(x.Pos(), "dereference of untracked pointer")
		return OpaqueVal{c.typeOf(e)}
	case *ast.SelectorExpr:
		return c.evalSelector(st, x)
	case *ast.IndexExpr:
		return c.evalIndex(st, x)
	case *ast.SliceExpr:
		return c.evalSliceExpr(st, x)
	case *ast.CallExpr:
		vs := c.evalCall(st, x)
		if len(vs) == 1 {
			return vs[0]
		}
		if len(vs) == 0 {
			return OpaqueVal{nil}
		}
		c.unsupportedf(x.Pos(), "multi-value call in single-value context")
		return vs[0]
	case *ast.CompositeLit:
		return c.evalCompositeLit(st, x)
	case *ast.FuncLit:
		return OpaqueVal{c.typeOf(e)}
	case *ast.TypeAssertExpr:
		c.unsupportedf(x.Pos(), "type assertion")
		return OpaqueVal{c.typeOf(e)}
	}
	c.unsupportedf(e.Pos(), "expression %T", e)
	v, _ := c.freshVal(c.typeOf(e), "unk")
	return v
}

func (c *FnCtx) evalIdent(st *State, x *ast.Ident) Val {
	obj := c.prog.Info.ObjectOf(x)
	switch o := obj.(type) {
	case *types.Nil:
		return OpaqueVal{nil}
	case *types.Var:
		if v, ok := st.env[o]; ok {
			return v
		}
		if o.Pkg() == c.prog.Pkg && o.Parent() == c.prog.Pkg.Scope() {
			if o.Name() == "empty" {
				return SV{"empty", SHash, false}
			}
		}
		c.unsupportedf(x.Pos(), "variable %s not in environment", x.Name)
		v, wf := c.freshVal(o.Type(), x.Name)
		for _, f := range wf {
			c.assume(st, f)
		}
		return v
	case *types.Func:
		return OpaqueVal{o.Type()}
	}
	if x.Name == "_" {
		return OpaqueVal{nil}
	}
	c.unsupportedf(x.Pos(), "identifier %s", x.Name)
	return OpaqueVal{c.typeOf(x)}
}

func (c *FnCtx) evalUnary(st *State, x *ast.UnaryExpr) Val {
	switch x.Op {
	case token.NOT:
		return SV{not(c.boolOf(c.eval(st, x.X), x.Pos())), SBool, false}
	case token.SUB:
		v, _ := c.bvOf(c.eval(st, x.X), x.Pos())
		return SV{app("bvneg", v.T), v.S, v.Signed}
	case token.XOR:
		v, _ := c.bvOf(c.eval(st, x.X), x.Pos())
		return SV{app("bvnot", v.T), v.S, v.Signed}
	case token.ADD:
		return c.eval(st, x.X)
	case token.AND:
		// &T{...} or &x : only needed for polNode allocation; model as opaque non-nil pointer
		if cl, ok := x.X.(*ast.CompositeLit); ok {
			sv := c.eval(st, cl)
			cell := &Cell{Name: fmt.Sprintf("new%d", c.nfresh)}
			st.cells[cell] = sv
			return &PtrVal{Cell: cell, NonNil: "true"}
		}
		if id, ok := x.X.(*ast.Ident); ok {
			if obj, ok := c.prog.Info.ObjectOf(id).(*types.Var); ok {
				if sv, ok := st.env[obj].(*StructVal); ok {
					// address of a local struct: move it into a cell
					cell := &Cell{Name: id.Name + "$cell"}
					st.cells[cell] = sv
					if !c.inReturn {
						c.unsupportedf(x.Pos(), "address-of local struct %s (aliasing not modelled)", id.Name)
					}
					return &PtrVal{Cell: cell, NonNil: "true"}
				}
			}
		}
	}
	c.unsupportedf(x.Pos(), "unary operator %s", x.Op)
	v, _ := c.freshVal(c.typeOf(x), "unk")
	return v
}

func (c *FnCtx) evalBinary(st *State, x *ast.BinaryExpr) Val {
	switch x.Op {
	case token.LAND, token.LOR:
		l := c.boolOf(c.eval(st, x.X), x.X.Pos())
		// the right operand is only evaluated when the left one does not decide
		st2 := st.clone()
		if x.Op == token.LAND {
			st2.pc = c.pcAnd(st, l)
		} else {
			st2.pc = c.pcAnd(st, not(l))
		}
		r := c.boolOf(c.eval(st2, x.Y), x.Y.Pos())
		if x.Op == token.LAND {
			return SV{c.define("b", SBool, and(l, r)), SBool, false}
		}
		return SV{c.define("b", SBool, or(l, r)), SBool, false}
	case token.EQL, token.NEQ:
		l := c.eval(st, x.X)
		r := c.eval(st, x.Y)
		eq := c.valEq(st, l, r, x)
		if x.Op == token.NEQ {
			eq = not(eq)
		}
		return SV{eq, SBool, false}
	}
	lv := c.eval(st, x.X)
	rv := c.eval(st, x.Y)
	if x.Op == token.SHL || x.Op == token.SHR {
		return c.shift(st, x.Op, lv, rv, x.Pos())
	}
	if x.Op == token.ADD {
		if _, ok := lv.(OpaqueVal); ok { // string concatenation
			return OpaqueVal{c.typeOf(x)}
		}
	}
	l, ok1 := c.bvOf(lv, x.X.Pos())
	r, ok2 := c.bvOf(rv, x.Y.Pos())
	if !ok1 || !ok2 || l.S.W != r.S.W {
		if ok1 && ok2 {
			c.unsupportedf(x.Pos(), "operand widths differ (%d vs %d)", l.S.W, r.S.W)
		}
		v, _ := c.freshVal(c.typeOf(x), "unk")
		return v
	}
	return c.arith(st, x.Op, l, r, x.Pos())
}

func (c *FnCtx) arith(st *State, op token.Token, l, r SV, pos token.Pos) Val {
	sg := l.Signed
	cmp := func(u, s string) Val {
		if sg {
			return SV{app(s, l.T, r.T), SBool, false}
		}
		return SV{app(u, l.T, r.T), SBool, false}
	}
	switch op {
	case token.ADD:
		return SV{app("bvadd", l.T, r.T), l.S, sg}
	case token.SUB:
		return SV{app("bvsub", l.T, r.T), l.S, sg}
	case token.MUL:
		return SV{app("bvmul", l.T, r.T), l.S, sg}
	case token.QUO, token.REM:
		c.oblige(st, "div", pos, not(app("=", r.T, bvInt(0, r.S.W))), "division by zero")
		o := map[bool]map[token.Token]string{true: {token.QUO: "bvsdiv", token.REM: "bvsrem"}, false: {token.QUO: "bvudiv", token.REM: "bvurem"}}[sg][op]
		return SV{app(o, l.T, r.T), l.S, sg}
	case token.AND:
		return SV{app("bvand", l.T, r.T), l.S, sg}
	case token.OR:
		return SV{app("bvor", l.T, r.T), l.S, sg}
	case token.XOR:
		return SV{app("bvxor", l.T, r.T), l.S, sg}
	case token.AND_NOT:
		return SV{app("bvand", l.T, app("bvnot", r.T)), l.S, sg}
	case token.LSS:
		return cmp("bvult", "bvslt")
	case token.LEQ:
		return cmp("bvule", "bvsle")
	case token.GTR:
		return cmp("bvugt", "bvsgt")
	case token.GEQ:
		return cmp("bvuge", "bvsge")
	}
	c.unsupportedf(pos, "binary operator %s", op)
	return SV{c.fresh("unk", l.S), l.S, sg}
}

// shift implements Go's << and >> (count >= width gives 0 / sign fill; negative signed count panics).
func (c *FnCtx) shift(st *State, op token.Token, lv, rv Val, pos token.Pos) Val {
	l, ok1 := c.bvOf(lv, pos)
	r, ok2 := c.bvOf(rv, pos)
	if !ok1 || !ok2 {
		return SV{c.fresh("unk", l.S), l.S, l.Signed}
	}
	if r.Signed {
		c.oblige(st, "shift", pos, app("bvsge", r.T, bvInt(0, r.S.W)), "negative shift count")
	}
	return SV{shiftTerm(op, l, r), l.S, l.Signed}
}

func shiftTerm(op token.Token, l, r SV) string {
	w := l.S.W
	var cnt string
	var big string // condition "count >= w" when the count is wider than the operand
	if r.S.W <= w {
		cnt = resize(r.T, r.S.W, w, false)
	} else {
		cnt = resize(r.T, r.S.W, w, false)
		big = app("bvuge", r.T, bvInt(int64(w), r.S.W))
	}
	var t string
	switch {
	case op == token.SHL:
		t = app("bvshl", l.T, cnt)
		if big != "" {
			t = ite(big, bvInt(0, w), t)
		}
	case l.Signed:
		t = app("bvashr", l.T, cnt)
		if big != "" {
			t = ite(big, app("bvashr", l.T, bvInt(int64(w-1), w)), t)
		}
	default:
		t = app("bvlshr", l.T, cnt)
		if big != "" {
			t = ite(big, bvInt(0, w), t)
		}
	}
	return t
}

// valEq builds the equality of two values (scalars, hashes, nil comparisons).
// nilTest returns the Bool term "v is nil" for values that can be nil.
func nilTest(v Val) (string, bool) {
	switch x := v.(type) {
	case SV:
		if x.S.K == KBool { // error: term is "non-nil"
			return not(x.T), true
		}
	case *SliceVal:
		return x.nilTerm(), true
	case *PtrVal:
		return not(x.NonNil), true
	case *StructVal:
		if nn, ok := x.F["$nonnil"]; ok {
			return not(nn.(SV).T), true
		}
	}
	return "", false
}

func isNilVal(v Val) bool {
	o, ok := v.(OpaqueVal)
	return ok && o.T == nil
}

func (c *FnCtx) valEq(st *State, l, r Val, x *ast.BinaryExpr) string {
	if isNilVal(r) {
		if t, ok := nilTest(l); ok {
			return t
		}
	}
	if isNilVal(l) {
		if t, ok := nilTest(r); ok {
			return t
		}
	}
	// slice == nil
	if ls, ok := l.(*SliceVal); ok {
		if rs, ok := r.(*SliceVal); ok && rs.Nil == "true" {
			return ls.nilTerm()
		}
	}
	if rs, ok := r.(*SliceVal); ok {
		if ls, ok := l.(*SliceVal); ok && ls.Nil == "true" {
			return rs.nilTerm()
		}
	}
	if lp, ok := l.(*PtrVal); ok {
		if _, isNil := x.Y.(*ast.Ident); isNil && c.isNilIdent(x.Y) {
			return not(lp.NonNil)
		}
	}
	if rp, ok := r.(*PtrVal); ok {
		if c.isNilIdent(x.X) {
			return not(rp.NonNil)
		}
	}
	// element pointer compared with nil
	if lsv, ok := l.(*StructVal); ok && c.isNilIdent(x.Y) {
		if nn, ok := lsv.F["$nonnil"]; ok {
			return not(nn.(SV).T)
		}
	}
	if rsv, ok := r.(*StructVal); ok && c.isNilIdent(x.X) {
		if nn, ok := rsv.F["$nonnil"]; ok {
			return not(nn.(SV).T)
		}
	}
	ls, ok1 := l.(SV)
	rs, ok2 := r.(SV)
	if ok1 && ok2 && ls.S.Eq(rs.S) {
		return app("=", ls.T, rs.T)
	}
	if lsv, ok := l.(*StructVal); ok {
		if rsv, ok := r.(*StructVal); ok {
			var cs []string
			for _, f := range lsv.Order {
				a, ok1 := lsv.F[f].(SV)
				b, ok2 := rsv.F[f].(SV)
				if !ok1 || !ok2 {
					c.unsupportedf(x.Pos(), "struct comparison with non-scalar field %s", f)
					return c.fresh("unk", SBool)
				}
				cs = append(cs, app("=", a.T, b.T))
			}
			return and(cs...)
		}
	}
	if _, ok := l.(OpaqueVal); ok {
		return c.fresh("opaque_eq", SBool)
	}
	if _, ok := r.(OpaqueVal); ok {
		return c.fresh("opaque_eq", SBool)
	}
	c.unsupportedf(x.Pos(), "comparison of %T and %T", l, r)
	return c.fresh("unk", SBool)
}

func (c *FnCtx) isNilIdent(e ast.Expr) bool {
	id, ok := e.(*ast.Ident)
	if !ok {
		return false
	}
	_, isNil := c.prog.Info.ObjectOf(id).(*types.Nil)
	return isNil
}

func (s *SliceVal) nilTerm() string {
	if s.Nil == "" {
		return "false"
	}
	return s.Nil
}

func (c *FnCtx) evalSelector(st *State, x *ast.SelectorExpr) Val {
	// package-qualified identifiers (math.MaxUint64 is a constant and handled above; io.EOF ...)
	if id, ok := x.X.(*ast.Ident); ok {
		if _, isPkg := c.prog.Info.ObjectOf(id).(*types.PkgName); isPkg {
			t := c.typeOf(x)
			if isErrorType(t) {
				return SV{"true", SBool, false} // a non-nil sentinel error such as io.EOF
			}
			return OpaqueVal{t}
		}
	}
	sel := c.prog.Info.Selections[x]
	if sel != nil && sel.Kind() != types.FieldVal {
		return OpaqueVal{c.typeOf(x)} // method value
	}
	base := c.eval(st, x.X)
	return c.fieldOf(st, base, x.Sel.Name, x)
}

func (c *FnCtx) fieldOf(st *State, base Val, name string, x ast.Expr) Val {
	switch b := base.(type) {
	case *StructVal:
		if nn, ok := b.F["$nonnil"]; ok {
			c.oblige(st, "nil", x.Pos(), nn.(SV).T, "nil pointer dereference (element)")
		}
		if v, ok := b.F[name]; ok {
			return v
		}
		// embedded struct promotion (Leaf embeds Hash): field "Hash"
		for _, f := range b.Order {
			if inner, ok := b.F[f].(*StructVal); ok {
				if v, ok := inner.F[name]; ok {
					return v
				}
			}
		}
		c.unsupportedf(x.Pos(), "field %s not modelled", name)
		v, _ := c.freshVal(c.typeOf(x), "unk_"+name)
		return v
	case *PtrVal:
		c.oblige(st, "nil", x.Pos(), b.NonNil, "nil pointer dereference")
		cell, ok := st.cells[b.Cell].(*StructVal)
		if !ok {
			c.unsupportedf(x.Pos(), "pointer cell not a struct")
			return OpaqueVal{c.typeOf(x)}
		}
		return c.fieldOf(st, cell, name, x)
	case OpaqueVal:
		v, wf := c.freshVal(c.typeOf(x), "opq_"+name)
		for _, f := range wf {
			c.assume(st, f)
		}
		return v
	}
	c.unsupportedf(x.Pos(), "selector on %T", base)
	v, _ := c.freshVal(c.typeOf(x), "unk")
	return v
}

// elemAt reads element idx (BV64 term, relative to the slice start).
func (c *FnCtx) elemAt(s *SliceVal, idx string, hint string) Val {
	at := app("bvadd", s.off(), idx)
	if s.Off == "" {
		at = idx
	}
	if s.Opaque || len(s.Leaves) == 0 {
		v, _ := c.freshVal(s.Elem, hint+"_elem")
		return v
	}
	if a, ok := s.Leaves[""]; ok && len(s.Leaves) == 1 {
		return SV{app("select", a, at), s.LeafSorts[""], s.LeafSign[""]}
	}
	sv := &StructVal{TypeName: s.Elem.String(), F: map[string]Val{}}
	// keep declaration order stable
	for _, p := range sortedKeys(s.Leaves) {
		sv.F[p] = SV{app("select", s.Leaves[p], at), s.LeafSorts[p], s.LeafSign[p]}
		sv.Order = append(sv.Order, p)
	}
	return sv
}

func (s *SliceVal) off() string {
	if s.Off == "" {
		return bvInt(0, 64)
	}
	return s.Off
}

func sortedKeys(m map[string]string) []string {
	ks := make([]string, 0, len(m))
	for k := range m {
		ks = append(ks, k)
	}
	for i := 1; i < len(ks); i++ {
		for j := i; j > 0 && ks[j] < ks[j-1]; j-- {
			ks[j], ks[j-1] = ks[j-1], ks[j]
		}
	}
	return ks
}

func (c *FnCtx) evalIndex(st *State, x *ast.IndexExpr) Val {
	// generic instantiation f[T] is not an index
	if tv, ok := c.prog.Info.Types[x.X]; ok {
		if _, isSig := tv.Type.Underlying().(*types.Signature); isSig {
			return OpaqueVal{c.typeOf(x)}
		}
	}
	base := c.eval(st, x.X)
	switch b := base.(type) {
	case *SliceVal:
		iv := c.eval(st, x.Index)
		idx, nonneg := c.toIndex(iv, x.Index.Pos())
		idx = c.define("idx", S64, idx)
		c.oblige(st, "bounds", x.Pos(), and(nonneg, app("bvslt", idx, b.Len)), "index out of range")
		return c.elemAt(b, idx, "e")
	case SV:
		// locally made map with integer keys and values (see makeScalarMap): an SMT array; absent keys read the zero value
		if b.S.K == KArray {
			kv, ok := c.eval(st, x.Index).(SV)
			if ok && kv.S.K == KBV {
				return SV{app("select", b.T, resize(kv.T, kv.S.W, 64, kv.Signed)), *b.S.Elem, b.Signed}
			}
		}
	case OpaqueVal:
		// map read: arbitrary value
		c.eval(st, x.Index)
		v, wf := c.freshVal(c.typeOf(x), "mapval")
		for _, f := range wf {
			c.assume(st, f)
		}
		return v
	}
	c.unsupportedf(x.Pos(), "index of %T", base)
	v, _ := c.freshVal(c.typeOf(x), "unk")
	return v
}

func (c *FnCtx) evalSliceExpr(st *State, x *ast.SliceExpr) Val {
	base := c.eval(st, x.X)
	if p, ok := base.(*PtrVal); ok { // (&arr)[:] not used
		_ = p
	}
	if hv, isHash := base.(SV); isHash && hv.S.K == KHash {
		// h[:] of a 32-byte hash: a byte view whose contents are not modelled
		for _, e := range []ast.Expr{x.Low, x.High} {
			if e != nil {
				c.eval(st, e)
			}
		}
		v, _ := c.freshSlice(types.Typ[types.Uint8], "hashbytes", bvInt(32, 64))
		sl := v.(*SliceVal)
		sl.Nil = ""
		if x.High != nil {
			if tv, ok := c.prog.Info.Types[x.High]; ok && tv.Value != nil {
				if n, ok2 := constantInt(tv.Value); ok2 && n >= 0 && n <= 32 {
					sl.Len = bvInt(n, 64)
				}
			}
		}
		return sl
	}
	b, ok := base.(*SliceVal)
	if !ok {
		c.unsupportedf(x.Pos(), "slice expression on %T", base)
		v, _ := c.freshVal(c.typeOf(x), "unk")
		return v
	}
	lo := bvInt(0, 64)
	hi := b.Len
	var conds []string
	if x.Low != nil {
		t, nn := c.toIndex(c.eval(st, x.Low), x.Low.Pos())
		lo = c.define("lo", S64, t)
		conds = append(conds, nn)
	}
	if x.High != nil {
		t, nn := c.toIndex(c.eval(st, x.High), x.High.Pos())
		hi = c.define("hi", S64, t)
		conds = append(conds, nn)
	}
	capT := b.Cap
	if x.Slice3 && x.Max != nil {
		t, nn := c.toIndex(c.eval(st, x.Max), x.Max.Pos())
		conds = append(conds, nn, app("bvsle", t, b.Cap), app("bvsle", hi, t))
		capT = t
	}
	conds = append(conds, app("bvsle", lo, hi), app("bvsle", hi, b.Cap))
	c.oblige(st, "bounds", x.Pos(), and(conds...), "slice bounds out of range")
	r := &SliceVal{Leaves: b.Leaves, LeafSorts: b.LeafSorts, LeafSign: b.LeafSign, Elem: b.Elem, Opaque: b.Opaque, Nil: b.Nil}
	// the result of slicing an array is a slice of the element type
	if at, ok := c.typeOf(x.X).Underlying().(*types.Array); ok {
		r.Elem = at.Elem()
		r.Nil = ""
	}
	r.Off = c.define("off", S64, app("bvadd", b.off(), lo))
	r.Len = c.define("len", S64, app("bvsub", hi, lo))
	r.Cap = c.define("cap", S64, app("bvsub", capT, lo))
	return r
}

func (c *FnCtx) evalCompositeLit(st *State, x *ast.CompositeLit) Val {
	t := c.typeOf(x)
	if isHashType(t) {
		if len(x.Elts) == 0 {
			return SV{"empty", SHash, false}
		}
		// Hash{1}: some non-empty constant
		h := c.fresh("hashlit", SHash)
		c.assume(st, not(app("=", h, "empty")))
		return SV{h, SHash, false}
	}
	switch u := t.Underlying().(type) {
	case *types.Struct:
		sv := c.zeroVal(t, "lit").(*StructVal)
		for i, el := range x.Elts {
			if kv, ok := el.(*ast.KeyValueExpr); ok {
				name := kv.Key.(*ast.Ident).Name
				sv.F[name] = c.eval(st, kv.Value)
			} else {
				sv.F[u.Field(i).Name()] = c.eval(st, el)
			}
		}
		return sv
	case *types.Slice:
		sl, _ := c.freshSlice(u.Elem(), "lit", bvInt(int64(len(x.Elts)), 64))
		s := sl.(*SliceVal)
		for i, el := range x.Elts {
			v := c.eval(st, el)
			c.storeElem(s, bvInt(int64(i), 64), v)
		}
		return s
	case *types.Array:
		sl, _ := c.freshSlice(u.Elem(), "lit", bvInt(u.Len(), 64))
		s := sl.(*SliceVal)
		c.zeroFill(s)
		for i, el := range x.Elts {
			v := c.eval(st, el)
			c.storeElem(s, bvInt(int64(i), 64), v)
		}
		return s
	}
	return OpaqueVal{t}
}

// storeElem writes v at index idx (relative) into s (in place on the SliceVal struct: callers pass a private copy).
func (c *FnCtx) storeElem(s *SliceVal, idx string, v Val) {
	if s.Opaque {
		return
	}
	at := idx
	if s.Off != "" {
		at = app("bvadd", s.Off, idx)
	}
	nl := map[string]string{}
	for p, a := range s.Leaves {
		nl[p] = a
	}
	switch x := v.(type) {
	case SV:
		if a, ok := s.Leaves[""]; ok {
			nl[""] = c.define("arr", ArrayOf(s.LeafSorts[""]), app("store", a, at, x.T))
		}
	case *StructVal:
		for p, a := range s.Leaves {
			if fv, ok := x.F[p].(SV); ok {
				nl[p] = c.define("arr", ArrayOf(s.LeafSorts[p]), app("store", a, at, fv.T))
			} else {
				nl[p] = c.fresh("arr_unk", ArrayOf(s.LeafSorts[p]))
			}
		}
	case *PtrVal:
		if a, ok := s.Leaves["$nonnil"]; ok {
			nl["$nonnil"] = c.define("arr", ArrayOf(SBool), app("store", a, at, x.NonNil))
		}
		for p := range s.Leaves {
			if p != "$nonnil" {
				nl[p] = c.fresh("arr_unk", ArrayOf(s.LeafSorts[p]))
			}
		}
	default:
		for p := range s.Leaves {
			nl[p] = c.fresh("arr_unk", ArrayOf(s.LeafSorts[p]))
		}
	}
	s.Leaves = nl
}

func (s *SliceVal) copyHdr() *SliceVal {
	n := *s
	return &n
}

func constantInt(v constant.Value) (int64, bool) {
	if v.Kind() != constant.Int {
		return 0, false
	}
	return constant.Int64Val(v)
}
