package main

import (
	"fmt"
	"go/ast"
	"go/token"
	"go/types"
)

// calleeKey returns the contract key ("Name" / "Recv.Name") of a call to a function of the package.
func (c *FnCtx) calleeKey(call *ast.CallExpr) string {
	fun := call.Fun
	if ix, ok := fun.(*ast.IndexExpr); ok { // explicit instantiation
		fun = ix.X
	}
	switch f := fun.(type) {
	case *ast.Ident:
		if fn, ok := c.prog.Info.ObjectOf(f).(*types.Func); ok && fn.Pkg() == c.prog.Pkg {
			return fn.Name()
		}
	case *ast.SelectorExpr:
		if sel := c.prog.Info.Selections[f]; sel != nil && sel.Kind() == types.MethodVal {
			if fn, ok := sel.Obj().(*types.Func); ok && fn.Pkg() == c.prog.Pkg {
				if sig, ok := fn.Type().(*types.Signature); ok && sig.Recv() != nil {
					if _, isIface := sig.Recv().Type().Underlying().(*types.Interface); isIface {
						return ""
					}
					return typeBaseName(sig.Recv().Type()) + "." + fn.Name()
				}
			}
		}
	}
	return ""
}

func typeBaseName(t types.Type) string {
	if p, ok := t.(*types.Pointer); ok {
		t = p.Elem()
	}
	if n, ok := t.(*types.Named); ok {
		return n.Obj().Name()
	}
	return t.String()
}

// calleeParamNames returns the contract's parameter names aligned with call.Args (receiver dropped).
func (c *FnCtx) calleeParamNames(ct *Contract, call *ast.CallExpr) []string {
	ps := ct.Params
	if ct.Decl != nil && ct.Decl.Recv != nil && len(ps) > 0 {
		ps = ps[1:]
	}
	return ps
}

// externName returns "pkg.Func" for calls into other packages, "iface.Method" for interface calls.
func (c *FnCtx) externName(call *ast.CallExpr) string {
	fun := call.Fun
	if ix, ok := fun.(*ast.IndexExpr); ok {
		fun = ix.X
	}
	sel, ok := fun.(*ast.SelectorExpr)
	if !ok {
		return ""
	}
	if id, ok := sel.X.(*ast.Ident); ok {
		if pn, ok := c.prog.Info.ObjectOf(id).(*types.PkgName); ok {
			return pn.Imported().Name() + "." + sel.Sel.Name
		}
	}
	if s := c.prog.Info.Selections[sel]; s != nil && s.Kind() == types.MethodVal {
		if fn, ok := s.Obj().(*types.Func); ok {
			if sig, ok := fn.Type().(*types.Signature); ok && sig.Recv() != nil {
				rt := sig.Recv().Type()
				if fn.Pkg() != c.prog.Pkg || isInterface(rt) {
					return typeBaseName(rt) + "." + fn.Name()
				}
			}
		}
	}
	return ""
}

func isInterface(t types.Type) bool {
	_, ok := t.Underlying().(*types.Interface)
	return ok
}

func (c *FnCtx) resultTypes(call *ast.CallExpr) []types.Type {
	t := c.typeOf(call)
	if t == nil {
		return nil
	}
	if tup, ok := t.(*types.Tuple); ok {
		var r []types.Type
		for i := 0; i < tup.Len(); i++ {
			r = append(r, tup.At(i).Type())
		}
		return r
	}
	return []types.Type{t}
}

func (c *FnCtx) freshResults(st *State, call *ast.CallExpr, hint string) []Val {
	var out []Val
	for i, t := range c.resultTypes(call) {
		v, wf := c.freshVal(t, fmt.Sprintf("%s_r%d", hint, i))
		for _, f := range wf {
			c.assume(st, f)
		}
		if p, ok := v.(*PtrVal); ok {
			cv, wf2 := c.freshVal(t.(*types.Pointer).Elem(), hint+"_cell")
			for _, f := range wf2 {
				c.assume(st, f)
			}
			st.cells[p.Cell] = cv
		}
		out = append(out, v)
	}
	return out
}

func (c *FnCtx) evalCall(st *State, call *ast.CallExpr) []Val {
	// conversion
	if tv, ok := c.prog.Info.Types[call.Fun]; ok && tv.IsType() {
		return []Val{c.convert(st, call, tv.Type)}
	}
	// builtins
	if id, ok := call.Fun.(*ast.Ident); ok {
		if _, isB := c.prog.Info.ObjectOf(id).(*types.Builtin); isB {
			return c.builtin(st, id.Name, call)
		}
	}
	// package function / method with (or without) contract
	if key := c.calleeKey(call); key != "" {
		return c.callPkg(st, key, call)
	}
	// calls of function-typed variables / parameters: pure, arbitrary result (listed assumption)
	if id, ok := call.Fun.(*ast.Ident); ok {
		if _, isVar := c.prog.Info.ObjectOf(id).(*types.Var); isVar {
			for _, a := range call.Args {
				c.eval(st, a)
			}
			c.assumptions["calls through function values ("+id.Name+") are pure and do not panic"] = true
			return c.freshResults(st, call, id.Name)
		}
	}
	if name := c.externName(call); name != "" {
		return c.callExtern(st, name, call)
	}
	c.unsupportedf(call.Pos(), "call %s", types.ExprString(call.Fun))
	return c.freshResults(st, call, "unk")
}

func (c *FnCtx) convert(st *State, call *ast.CallExpr, to types.Type) Val {
	v := c.eval(st, call.Args[0])
	if s, ok := v.(SV); ok && s.S.K == KBV {
		if w, sg, ok := basicInfo(to); ok {
			return SV{resize(s.T, s.S.W, w, s.Signed), BV(w), sg}
		}
	}
	if s, ok := v.(SV); ok {
		if ts, _, ok := c.scalarSort(to); ok && ts.Eq(s.S) {
			return v
		}
	}
	// Hash(x) of a [32]byte etc.
	if isHashType(to) {
		if s, ok := v.(SV); ok && s.S.K == KHash {
			return v
		}
		return SV{c.fresh("hashconv", SHash), SHash, false}
	}
	if _, ok := v.(*SliceVal); ok {
		if _, isSl := to.Underlying().(*types.Slice); isSl {
			return v
		}
	}
	if _, ok := v.(OpaqueVal); ok {
		nv, wf := c.freshVal(to, "conv")
		for _, f := range wf {
			c.assume(st, f)
		}
		return nv
	}
	c.unsupportedf(call.Pos(), "conversion to %v", to)
	nv, _ := c.freshVal(to, "conv")
	return nv
}

func (c *FnCtx) builtin(st *State, name string, call *ast.CallExpr) []Val {
	switch name {
	case "len", "cap":
		v := c.eval(st, call.Args[0])
		switch s := v.(type) {
		case *SliceVal:
			if name == "len" {
				return []Val{SV{s.Len, S64, true}}
			}
			return []Val{SV{s.Cap, S64, true}}
		case OpaqueVal: // map or string
			n := c.fresh("len", S64)
			c.assume(st, and(app("bvsle", bvInt(0, 64), n), app("bvsle", n, maxLen)))
			return []Val{SV{n, S64, true}}
		}
	case "make":
		t := c.typeOf(call)
		if sl, ok := t.Underlying().(*types.Slice); ok {
			v, _ := c.freshSlice(sl.Elem(), "mk", "")
			s := v.(*SliceVal)
			c.zeroFill(s)
			n, nn := c.toIndex(c.eval(st, call.Args[1]), call.Args[1].Pos())
			n = c.define("mklen", S64, n)
			cp := n
			conds := []string{nn}
			if len(call.Args) > 2 {
				var cn string
				cp, cn = c.toIndex(c.eval(st, call.Args[2]), call.Args[2].Pos())
				cp = c.define("mkcap", S64, cp)
				conds = append(conds, cn, app("bvsle", n, cp))
			}
			c.oblige(st, "make", call.Pos(), and(conds...), "make: length/capacity out of range")
			c.assume(st, and(app("=", s.Len, n), app("=", s.Cap, cp), app("bvsle", cp, allocMax)))
			c.assumptions["allocation never fails: a successful make/append yields at most 2^48 elements"] = true
			s.Nil = ""
			return []Val{s}
		}
		// maps, channels
		for _, a := range call.Args[1:] {
			v := c.eval(st, a)
			if s, ok := v.(SV); ok && s.S.K == KBV && s.Signed {
				c.oblige(st, "make", call.Pos(), app("bvsge", s.T, bvInt(0, s.S.W)), "make: negative size hint")
			}
		}
		if mv, ok := c.makeScalarMap(t); ok {
			return []Val{mv}
		}
		return []Val{OpaqueVal{t}}
	case "append":
		return []Val{c.appendCall(st, call)}
	case "copy":
		return []Val{c.copyCall(st, call)}
	case "delete":
		var vs []Val
		for _, a := range call.Args {
			vs = append(vs, c.eval(st, a))
		}
		// delete on a locally made integer map: the key reads the zero value afterwards
		if len(vs) == 2 {
			if b, ok := vs[0].(SV); ok && b.S.K == KArray {
				if kv, ok := vs[1].(SV); ok && kv.S.K == KBV {
					if id, ok := call.Args[0].(*ast.Ident); ok {
						st.env[c.prog.Info.ObjectOf(id)] = SV{c.define("map", b.S, app("store", b.T, resize(kv.T, kv.S.W, 64, kv.Signed), bvInt(0, b.S.Elem.W))), b.S, b.Signed}
					}
				}
			}
		}
		return nil
	case "new":
		t := c.typeOf(call).(*types.Pointer).Elem()
		cell := &Cell{Name: fmt.Sprintf("new%d", c.nfresh)}
		c.nfresh++
		st.cells[cell] = c.zeroVal(t, "new")
		return []Val{&PtrVal{Cell: cell, NonNil: "true"}}
	case "panic":
		c.oblige(st, "panic", call.Pos(), "false", "explicit panic reachable")
		return nil
	case "min", "max":
		a, ok1 := c.bvOf(c.eval(st, call.Args[0]), call.Pos())
		b, ok2 := c.bvOf(c.eval(st, call.Args[1]), call.Pos())
		if ok1 && ok2 && len(call.Args) == 2 {
			lt := "bvult"
			if a.Signed {
				lt = "bvslt"
			}
			if name == "min" {
				return []Val{SV{ite(app(lt, a.T, b.T), a.T, b.T), a.S, a.Signed}}
			}
			return []Val{SV{ite(app(lt, a.T, b.T), b.T, a.T), a.S, a.Signed}}
		}
	}
	c.unsupportedf(call.Pos(), "builtin %s", name)
	return c.freshResults(st, call, name)
}

// appendCall models append with value semantics (see DESIGN 2.3).
func (c *FnCtx) appendCall(st *State, call *ast.CallExpr) Val {
	base := c.eval(st, call.Args[0])
	b, ok := base.(*SliceVal)
	if !ok {
		c.unsupportedf(call.Pos(), "append to %T", base)
		v, _ := c.freshVal(c.typeOf(call), "app")
		return v
	}
	r := b.copyHdr()
	if call.Ellipsis.IsValid() {
		src, ok := c.eval(st, call.Args[1]).(*SliceVal)
		if !ok {
			// append([]byte, string...) etc.
			c.unsupportedf(call.Pos(), "append of untracked slice")
			v, _ := c.freshVal(c.typeOf(call), "app")
			return v
		}
		newLen := c.define("applen", S64, app("bvadd", b.Len, src.Len))
		// contents: prefix from b, then src (read before the write: memmove semantics)
		nl := map[string]string{}
		for p, arr := range b.Leaves {
			na := c.fresh("apparr"+sanitize(p), ArrayOf(b.LeafSorts[p]))
			k := fmt.Sprintf("k!%d", c.nfresh)
			c.nfresh++
			pre := fmt.Sprintf("(forall ((%s (_ BitVec 64))) (! (=> (and (bvsle #x0000000000000000 %s) (bvslt %s %s)) (= (select %s (bvadd %s %s)) (select %s (bvadd %s %s)))) :pattern ((select %s (bvadd %s %s)))))",
				k, k, k, b.Len, na, b.off(), k, arr, b.off(), k, na, b.off(), k)
			sa := src.Leaves[p]
			suf := fmt.Sprintf("(forall ((%s (_ BitVec 64))) (! (=> (and (bvsle #x0000000000000000 %s) (bvslt %s %s)) (= (select %s (bvadd %s (bvadd %s %s))) (select %s (bvadd %s %s)))) :pattern ((select %s (bvadd %s (bvadd %s %s))))))",
				k, k, k, src.Len, na, b.off(), b.Len, k, sa, src.off(), k, na, b.off(), b.Len, k)
			c.assume(st, pre)
			if sa != "" {
				c.assume(st, suf)
			}
			nl[p] = na
		}
		r.Leaves = nl
		r.Len = newLen
		r.Cap = c.fresh("appcap", S64)
		c.assume(st, and(app("bvsle", newLen, r.Cap), app("bvsle", b.Cap, r.Cap), app("bvsle", r.Cap, allocMax)))
		r.Nil = and(b.nilTerm(), app("=", src.Len, bvInt(0, 64)))
		if r.Nil == "false" {
			r.Nil = ""
		}
		return r
	}
	n := len(call.Args) - 1
	cur := r
	for i := 0; i < n; i++ {
		v := c.eval(st, call.Args[1+i])
		idx := app("bvadd", b.Len, bvInt(int64(i), 64))
		c.storeElem(cur, idx, v)
	}
	cur.Len = c.define("applen", S64, app("bvadd", b.Len, bvInt(int64(n), 64)))
	cur.Cap = c.fresh("appcap", S64)
	c.assume(st, and(app("bvsle", cur.Len, cur.Cap), app("bvsle", b.Cap, cur.Cap), app("bvsle", cur.Cap, allocMax)))
	if n > 0 {
		cur.Nil = ""
	}
	return cur
}

// copyCall models copy(dst, src): returns min(len(dst),len(src)); dst contents updated.
func (c *FnCtx) copyCall(st *State, call *ast.CallExpr) Val {
	dv := c.eval(st, call.Args[0])
	sv := c.eval(st, call.Args[1])
	d, ok1 := dv.(*SliceVal)
	s, ok2 := sv.(*SliceVal)
	if !ok1 {
		c.unsupportedf(call.Pos(), "copy into %T", dv)
		return SV{c.fresh("copied", S64), S64, true}
	}
	var n string
	if ok2 {
		n = c.define("copied", S64, ite(app("bvslt", d.Len, s.Len), d.Len, s.Len))
	} else {
		// copy from a string / untracked source
		n = c.fresh("copied", S64)
		c.assume(st, and(app("bvsle", bvInt(0, 64), n), app("bvsle", n, d.Len)))
	}
	nd := d.copyHdr()
	nl := map[string]string{}
	for p, arr := range d.Leaves {
		na := c.fresh("cparr"+sanitize(p), ArrayOf(d.LeafSorts[p]))
		k := fmt.Sprintf("k!%d", c.nfresh)
		c.nfresh++
		rel := app("bvsub", k, d.off())
		inside := and(app("bvsle", bvInt(0, 64), rel), app("bvslt", rel, n))
		var srcSel string
		if ok2 && s.Leaves[p] != "" {
			srcSel = app("select", s.Leaves[p], app("bvadd", s.off(), rel))
		}
		var body string
		if srcSel != "" {
			body = app("=", app("select", na, k), ite(inside, srcSel, app("select", arr, k)))
		} else {
			body = implies(not(inside), app("=", app("select", na, k), app("select", arr, k)))
		}
		c.assume(st, fmt.Sprintf("(forall ((%s (_ BitVec 64))) (! %s :pattern ((select %s %s))))", k, body, na, k))
		nl[p] = na
	}
	nd.Leaves = nl
	c.writeBack(st, call.Args[0], nd)
	return SV{n, S64, true}
}

// ---------------------------------------------------------------------------
// Calls into the package: by contract
// ---------------------------------------------------------------------------

func (c *FnCtx) callPkg(st *State, key string, call *ast.CallExpr) []Val {
	ct := c.prog.Contracts.ByKey[key]
	// receiver
	var recvExpr ast.Expr
	var args []Val
	var ptrRecvTemp *Cell
	fun := call.Fun
	if ix, ok := fun.(*ast.IndexExpr); ok {
		fun = ix.X
	}
	if sel, ok := fun.(*ast.SelectorExpr); ok {
		if s := c.prog.Info.Selections[sel]; s != nil && s.Kind() == types.MethodVal {
			recvExpr = sel.X
			rv := c.eval(st, sel.X)
			sig := s.Obj().Type().(*types.Signature)
			_, wantPtr := sig.Recv().Type().(*types.Pointer)
			switch r := rv.(type) {
			case *StructVal:
				if wantPtr {
					// &x of an addressable variable
					ptrRecvTemp = &Cell{Name: "recv$tmp"}
					st.cells[ptrRecvTemp] = r
					rv = &PtrVal{Cell: ptrRecvTemp, NonNil: "true"}
				}
			case *PtrVal:
				if !wantPtr {
					c.oblige(st, "nil", call.Pos(), r.NonNil, "nil pointer dereference (method call)")
					rv = st.cells[r.Cell]
				}
			}
			args = append(args, rv)
		}
	}
	var psig *types.Signature
	if fd := c.prog.Funcs[key]; fd != nil {
		if fobj, ok := c.prog.Info.Defs[fd.Name].(*types.Func); ok {
			psig = fobj.Type().(*types.Signature)
		}
	}
	for i, a := range call.Args {
		v := c.copyVal(c.eval(st, a))
		if psig != nil && i < psig.Params().Len() && isNilVal(v) {
			v = c.zeroVal(psig.Params().At(i).Type(), "nilarg")
		}
		args = append(args, v)
	}
	if ct == nil {
		c.assumptions["call to "+key+" has no contract: results arbitrary, assumed not to panic or modify tracked state"] = true
		c.uncontracted[key] = true
		return c.freshResults(st, call, sanitize(key))
	}
	res := c.applyContract(st, ct, key, args, call, call.Pos())
	// write back a temporary receiver cell
	if ptrRecvTemp != nil && recvExpr != nil {
		c.assignTo(st, recvExpr, st.cells[ptrRecvTemp])
		delete(st.cells, ptrRecvTemp)
	}
	// modifies: the contents of the caller's slice are unknown afterwards
	if call != nil && len(ct.Modifies) > 0 {
		pn := c.calleeParamNames(ct, call)
		for i, a := range call.Args {
			if i < len(pn) && contains(ct.Modifies, pn[i]) {
				if sv, ok := c.eval(st, a).(*SliceVal); ok {
					h := c.havocLike(st, sv, "mod").(*SliceVal)
					nsv := sv.copyHdr()
					nsv.Leaves = h.Leaves
					c.writeBack(st, a, nsv)
				}
			}
		}
	}
	return res
}

func contains(xs []string, s string) bool {
	for _, x := range xs {
		if x == s {
			return true
		}
	}
	return false
}

// applyContract: assert requires, havoc what the callee may change, assume ensures.
func (c *FnCtx) applyContract(st *State, ct *Contract, key string, args []Val, call *ast.CallExpr, pos token.Pos) []Val {
	vars := map[string]Val{}
	for i, n := range ct.Params {
		if i < len(args) {
			vars[n] = args[i]
		}
	}
	pre := st.clone()
	env := &CEnv{vars: vars, old: pre, oldV: vars, lemma: c.contract != nil && c.contract.IsLemma}
	for k, rq := range ct.Requires {
		g := c.ce(st, rq.Expr, env, nil)
		gs, ok := g.(SV)
		if !ok {
			continue
		}
		c.visitsPre[key]++
		c.oblige(st, "pre", pos, gs.T, fmt.Sprintf("precondition %d of %s: %s", k+1, key, rq.Text))
	}
	// pointer arguments: the callee may modify the pointee (unless its contract says `pure`, which is checked)
	for _, a := range args {
		if ct.Pure {
			break
		}
		if p, ok := a.(*PtrVal); ok {
			if cv, ok := st.cells[p.Cell]; ok {
				st.cells[p.Cell] = c.havocLike(st, cv, sanitize(key)+"_cell")
			}
		}
	}
	// results
	var results []Val
	if call != nil {
		results = c.freshResults(st, call, sanitize(key))
	} else {
		// lemma context: result types from the declaration
		if fd := c.prog.Funcs[key]; fd != nil {
			if fobj, ok := c.prog.Info.Defs[fd.Name].(*types.Func); ok {
				sig := fobj.Type().(*types.Signature)
				for i := 0; i < sig.Results().Len(); i++ {
					v, wf := c.freshVal(sig.Results().At(i).Type(), fmt.Sprintf("%s_r%d", sanitize(key), i))
					for _, f := range wf {
						c.assume(st, f)
					}
					results = append(results, v)
				}
			}
		}
	}
	// a callee whose contract speaks about the io ghosts performs reads/writes: allFull can only
	// go from true to false, ioBytes only grow
	ioCallee := false
	for _, en := range ct.Ensures {
		if mentionsAny(en.Expr, []string{"allFull", "ioBytes"}) {
			ioCallee = true
		}
	}
	if ioCallee {
		if o := c.ghostObjs["allFull"]; o != nil {
			if af, ok := st.env[o].(SV); ok {
				st.env[o] = SV{c.define("allFull", SBool, and(af.T, c.fresh("calleeFull", SBool))), SBool, false}
			}
		}
		if o := c.ghostObjs["ioBytes"]; o != nil {
			if gb, ok := st.env[o].(SV); ok {
				d := c.fresh("calleeBytes", S64)
				c.assume(st, app("bvsle", bvInt(0, 64), d))
				st.env[o] = SV{c.define("ioBytes", S64, app("bvadd", gb.T, d)), S64, true}
			}
		}
	}
	post := map[string]Val{}
	for k, v := range vars {
		post[k] = v
	}
	for i, n := range ct.Results {
		if i < len(results) && n != "_" {
			post[n] = results[i]
		}
	}
	penv := &CEnv{vars: post, old: pre, oldV: vars, lemma: env.lemma}
	for _, en := range ct.Ensures {
		if mentionsAny(en.Expr, ct.Ghosts) {
			continue // clauses about the callee's ghost locals are not visible to callers
		}
		g := c.ce(st, en.Expr, penv, nil)
		if gs, ok := g.(SV); ok && gs.S.K == KBool {
			c.assume(st, gs.T)
		}
	}
	return results
}

// ---------------------------------------------------------------------------
// Assumed contracts of external functions (DESIGN 2.3, tier A)
// ---------------------------------------------------------------------------

func (c *FnCtx) callExtern(st *State, name string, call *ast.CallExpr) []Val {
	c.externUsed[name] = true
	evalArgs := func() []Val {
		var vs []Val
		for _, a := range call.Args {
			vs = append(vs, c.eval(st, a))
		}
		return vs
	}
	switch name {
	case "fmt.Errorf", "errors.New":
		evalArgs()
		return []Val{SV{"true", SBool, false}}
	case "fmt.Sprintf", "fmt.Sprint", "hex.EncodeToString", "strings.Repeat":
		evalArgs()
		return []Val{OpaqueVal{c.typeOf(call)}}
	case "bits.Len64":
		v, _ := c.bvOf(c.eval(st, call.Args[0]), call.Pos())
		return []Val{SV{resize(app("len64", v.T), 8, 64, false), S64, true}}
	case "bits.OnesCount64":
		v, _ := c.bvOf(c.eval(st, call.Args[0]), call.Pos())
		return []Val{SV{resize(app("popcount", v.T), 8, 64, false), S64, true}}
	case "sort.Slice", "slices.Sort", "slices.SortFunc", "sort.Sort":
		// permutes the contents; length unchanged. slices.Sort on integers: result ascending.
		v := c.eval(st, call.Args[0])
		switch s := v.(type) {
		case *SliceVal:
			h := c.havocLike(st, s, "sorted").(*SliceVal)
			ns := s.copyHdr()
			ns.Leaves = h.Leaves
			if name == "slices.Sort" {
				if a, ok := ns.Leaves[""]; ok && s.LeafSorts[""].K == KBV {
					lt := "bvule"
					if s.LeafSign[""] {
						lt = "bvsle"
					}
					i, j := fmt.Sprintf("i!%d", c.nfresh), fmt.Sprintf("j!%d", c.nfresh)
					c.nfresh++
					c.assume(st, fmt.Sprintf("(forall ((%s (_ BitVec 64)) (%s (_ BitVec 64))) (=> (and (bvsle #x0000000000000000 %s) (bvsle %s %s) (bvslt %s %s)) (%s (select %s (bvadd %s %s)) (select %s (bvadd %s %s)))))",
						i, j, i, i, j, j, s.Len, lt, a, s.off(), i, a, s.off(), j))
				}
			}
			c.writeBack(st, call.Args[0], ns)
		case *StructVal: // sort.Sort(hashAndPos): both slices permuted together
			n := c.copyVal(s).(*StructVal)
			for _, f := range n.Order {
				if sl, ok := n.F[f].(*SliceVal); ok {
					h := c.havocLike(st, sl, "sorted").(*SliceVal)
					ns := sl.copyHdr()
					ns.Leaves = h.Leaves
					n.F[f] = ns
				}
			}
			c.assignTo(st, call.Args[0], n)
		}
		for _, a := range call.Args[1:] {
			c.eval(st, a)
		}
		return nil
	case "sort.Search":
		n, _ := c.bvOf(c.eval(st, call.Args[0]), call.Pos())
		r := c.fresh("search", S64)
		c.assume(st, and(app("bvsle", bvInt(0, 64), r), app("bvsle", r, n.T)))
		return []Val{SV{r, S64, true}}
	case "slices.Index":
		s, ok := c.eval(st, call.Args[0]).(*SliceVal)
		c.eval(st, call.Args[1])
		r := c.fresh("index", S64)
		if ok {
			c.assume(st, and(app("bvsle", bvInt(-1, 64), r), app("bvslt", r, s.Len)))
		}
		return []Val{SV{r, S64, true}}
	case "slices.Delete":
		s, ok := c.eval(st, call.Args[0]).(*SliceVal)
		i, n1 := c.toIndex(c.eval(st, call.Args[1]), call.Pos())
		j, n2 := c.toIndex(c.eval(st, call.Args[2]), call.Pos())
		if !ok {
			break
		}
		c.oblige(st, "bounds", call.Pos(), and(n1, n2, app("bvsle", i, j), app("bvsle", j, s.Len)), "slices.Delete: indices out of range")
		h := c.havocLike(st, s, "deleted").(*SliceVal)
		ns := s.copyHdr()
		ns.Leaves = h.Leaves
		ns.Len = c.define("dellen", S64, app("bvsub", s.Len, app("bvsub", j, i)))
		return []Val{ns}
	case "binary.PutUint64", "littleEndian.PutUint64":
		vs := evalArgs()
		if s, ok := vs[0].(*SliceVal); ok {
			c.oblige(st, "bounds", call.Pos(), app("bvsle", bvInt(8, 64), s.Len), "PutUint64: buffer shorter than 8")
		}
		return nil
	case "littleEndian.Uint64":
		vs := evalArgs()
		if s, ok := vs[0].(*SliceVal); ok {
			c.oblige(st, "bounds", call.Pos(), app("bvsle", bvInt(8, 64), s.Len), "Uint64: buffer shorter than 8")
		}
		return []Val{SV{c.fresh("u64", S64), S64, false}}
	case "Reader.Read", "io.ReadFull", "Writer.Write":
		return c.ioCall(st, name, call)
	case "RWMutex.Lock", "RWMutex.Unlock", "RWMutex.RLock", "RWMutex.RUnlock":
		return nil
	case "NodesInterface.Get", "CachedLeavesInterface.Get", "NodesInterface.Length", "CachedLeavesInterface.Length":
		evalArgs()
		c.assumptions["NodesInterface/CachedLeavesInterface implementations return arbitrary values and do not panic"] = true
		rs := c.freshResults(st, call, sanitize(name))
		if len(rs) == 1 {
			if s, ok := rs[0].(SV); ok && s.S.K == KBV {
				c.assume(st, and(app("bvsle", bvInt(0, 64), s.T), app("bvsle", s.T, maxLen)))
			}
		}
		return rs
	case "NodesInterface.Put", "NodesInterface.Delete", "CachedLeavesInterface.Put", "CachedLeavesInterface.Delete":
		evalArgs()
		return nil
	case "NodesInterface.ForEach", "CachedLeavesInterface.ForEach":
		if len(call.Args) == 1 {
			if fl, ok := call.Args[0].(*ast.FuncLit); ok {
				c.foreachCtr++
				if ct := c.prog.Contracts.ByKey[c.key]; ct != nil && ct.Foreach[c.foreachCtr] != nil {
					return c.foreachLoop(st, call, fl, c.foreachCtr, ct.Foreach[c.foreachCtr])
				}
			}
		}
		// the callback may assign captured variables: havoc them
		for _, a := range call.Args {
			if fl, ok := a.(*ast.FuncLit); ok {
				objs, cells := c.assignedIn(st, fl.Body)
				c.havoc(st, objs, cells, "foreach")
			}
		}
		return c.freshResults(st, call, "foreach")
	case "sha512.New512_256", "Hash.Write", "Hash.Sum":
		evalArgs()
		return c.freshResults(st, call, sanitize(name))
	}
	c.unsupportedf(call.Pos(), "external call %s has no assumed contract", name)
	for _, a := range call.Args {
		c.eval(st, a)
	}
	return c.freshResults(st, call, sanitize(name))
}

// ioCall: the io.Reader / io.Writer contracts and the ghost variable allFull (C13).
//
//	Reader.Read(p):  0 <= n <= len(p); a short read with err == nil is allowed; n > 0 with err != nil is allowed.
//	io.ReadFull(r,p): err == nil  <=>  n == len(p).
//	Writer.Write(p): 0 <= n <= len(p); n < len(p) ==> err != nil.
//
// ghost allFull &&= (err != nil || n == len(p)) for every read;  ghost ioBytes += n.
func (c *FnCtx) ioCall(st *State, name string, call *ast.CallExpr) []Val {
	bufArg := call.Args[0]
	if name == "io.ReadFull" {
		c.eval(st, call.Args[0])
		bufArg = call.Args[1]
	}
	buf, ok := c.eval(st, bufArg).(*SliceVal)
	n := c.fresh("ion", S64)
	err := c.fresh("ioerr", SBool)
	if !ok {
		c.unsupportedf(call.Pos(), "io call with untracked buffer")
		return []Val{SV{n, S64, true}, SV{err, SBool, false}}
	}
	c.assume(st, and(app("bvsle", bvInt(0, 64), n), app("bvsle", n, buf.Len)))
	switch name {
	case "io.ReadFull":
		c.assume(st, app("=", not(err), app("=", n, buf.Len)))
	case "Writer.Write":
		c.assume(st, implies(app("bvslt", n, buf.Len), err))
	}
	if name != "Writer.Write" {
		// the buffer contents are whatever was read
		h := c.havocLike(st, buf, "rdbuf").(*SliceVal)
		nb := buf.copyHdr()
		nb.Leaves = h.Leaves
		c.writeBack(st, bufArg, nb)
	}
	full := or(err, app("=", n, buf.Len))
	if o := c.ghostObjs["allFull"]; o != nil {
		if af, ok := st.env[o].(SV); ok {
			st.env[o] = SV{c.define("allFull", SBool, and(af.T, full)), SBool, false}
		}
	}
	if o := c.ghostObjs["ioBytes"]; o != nil {
		if gb, ok := st.env[o].(SV); ok {
			st.env[o] = SV{c.define("ioBytes", S64, app("bvadd", gb.T, n)), S64, true}
		}
	}
	return []Val{SV{n, S64, true}, SV{err, SBool, false}}
}

func mentionsAny(e ast.Expr, names []string) bool {
	if len(names) == 0 {
		return false
	}
	hit := false
	ast.Inspect(e, func(n ast.Node) bool {
		if id, ok := n.(*ast.Ident); ok && contains(names, id.Name) {
			hit = true
		}
		return !hit
	})
	return hit
}


// makeScalarMap models make(map[K]V) with K a 64-bit integer type and V an integer type as an SMT array from keys to
// values in which every key reads V's zero value (Go's value for an absent key).  Presence is not tracked: the ok of
// `v, ok := m[k]` stays arbitrary.  Only maps made inside the function under verification get this model (value
// semantics are sound for them as long as they are not handed to callees, which see an opaque value).
func (c *FnCtx) makeScalarMap(t types.Type) (Val, bool) {
	m, ok := t.Underlying().(*types.Map)
	if !ok {
		return nil, false
	}
	kw, _, kok := basicInfo(m.Key())
	vw, vs, vok := basicInfo(m.Elem())
	if !kok || !vok || kw != 64 {
		return nil, false
	}
	es := BV(vw)
	srt := Sort{K: KArray, Elem: &es}
	return SV{c.define("map", srt, fmt.Sprintf("((as const %s) %s)", srt.String(), bvInt(0, vw))), srt, vs}, true
}


// foreachLoop executes X.ForEach(func(k, v) error {...}) as a loop over an unknown number of elements, cut at the
// invariants given by `foreach N: invariant E`: the invariants are asserted before the call, everything the callback may
// assign is havocked, the invariants are assumed, the callback body is executed once on arbitrary arguments; every
// `return` of the callback with a nil error must re-establish the invariants (the iteration continues), every return
// with a non-nil error leaves the loop with that error as ForEach's result.  The assumed contract of ForEach is exactly
// that: it calls the function for some elements in some order, stops at the first non-nil error and returns it, and
// returns nil otherwise (the two implementations in mappollard.go do so; listed as an assumption).
func (c *FnCtx) foreachLoop(st *State, call *ast.CallExpr, fl *ast.FuncLit, n int, spec *LoopSpec) []Val {
	pos := call.Pos()
	c.assumptions["ForEach(callback) calls the callback for some elements, stops at the first non-nil error and returns it, returns nil otherwise"] = true
	for k, inv := range spec.Invariants {
		g := c.evalClause(st, inv, nil)
		c.obligeNamed(st, fmt.Sprintf("inv-entry.foreach%d.%d", n, k+1), "inv-entry", pos, g, "callback invariant holds before ForEach: "+inv.Text)
	}
	objs, cells := c.assignedIn(st, fl.Body)
	head := st.clone()
	c.havoc(head, objs, cells, fmt.Sprintf("fe%d", n))
	for _, inv := range spec.Invariants {
		c.assume(head, c.evalClause(head, inv, nil))
	}
	more := c.fresh(fmt.Sprintf("foreach%d_more", n), SBool) // another element is visited / the iteration is over
	in := head.clone()
	in.pc = c.pcAnd(head, more)
	for _, f := range fl.Type.Params.List {
		for _, id := range f.Names {
			if o := c.prog.Info.ObjectOf(id); o != nil {
				v, wf := c.freshVal(o.Type(), id.Name)
				for _, w := range wf {
					c.assume(in, w)
				}
				in.env[o] = v
			}
		}
	}
	// run the callback body; its returns are captured instead of being returns of the function under verification
	nr := len(c.rets)
	savedTypes, savedObjs, savedIn := c.resTypes, c.resObjs, c.inReturn
	c.resTypes = nil
	if fl.Type.Results != nil {
		for _, f := range fl.Type.Results.List {
			c.resTypes = append(c.resTypes, c.prog.Info.TypeOf(f.Type))
		}
	}
	c.resObjs = nil
	c.execBlock(in, fl.Body.List)
	capSt, capVals := c.rets[nr:], c.retVals[nr:]
	c.rets, c.retVals = c.rets[:nr:nr], c.retVals[:nr:nr]
	c.resTypes, c.resObjs, c.inReturn = savedTypes, savedObjs, savedIn
	ferr := c.fresh(fmt.Sprintf("foreach%d_err", n), SBool)
	done := head.clone()
	done.pc = c.pcAnd(head, not(more))
	c.assume(done, not(ferr))
	exits := []*State{done}
	for i, rs := range capSt {
		var e string = "false"
		if len(capVals[i]) == 1 {
			if sv, ok := capVals[i][0].(SV); ok && sv.S.K == KBool {
				e = sv.T
			}
		}
		cont := rs.clone()
		cont.pc = c.pcAnd(rs, not(e))
		if cont.pc != "false" {
			for k, inv := range spec.Invariants {
				g := c.evalClause(cont, inv, nil)
				c.obligeNamed(cont, fmt.Sprintf("inv-step.foreach%d.%d", n, k+1), "inv-step", pos, g, "callback invariant preserved: "+inv.Text)
			}
		}
		ex := rs.clone()
		ex.pc = c.pcAnd(rs, e)
		c.assume(ex, ferr)
		exits = append(exits, ex)
	}
	m := c.mergeStates(exits, fmt.Sprintf("fx%d", n))
	if m != nil {
		*st = *m
	}
	return []Val{SV{ferr, SBool, false}}
}
