package main

import (
	"encoding/json"
	"flag"
	"fmt"
	"go/ast"
	"go/token"
	"go/types"
	"os"
	"regexp"
	"sort"
	"strings"
	"time"

	"golang.org/x/tools/go/packages"
)

func loadProg(repo, contractsPath, preludePath string) (*Prog, error) {
	cfg := &packages.Config{
		Mode:       packages.NeedSyntax | packages.NeedTypes | packages.NeedTypesInfo | packages.NeedName | packages.NeedFiles,
		Dir:        repo,
		BuildFlags: []string{"-tags=verif"},
		Env:        append(os.Environ(), "GOFLAGS=-mod=mod", "GOPROXY=off", "GOSUMDB=off", "GOTOOLCHAIN=local"),
	}
	pkgs, err := packages.Load(cfg, ".")
	if err != nil {
		return nil, err
	}
	if len(pkgs) != 1 {
		return nil, fmt.Errorf("expected one package, got %d", len(pkgs))
	}
	pk := pkgs[0]
	if len(pk.Errors) > 0 {
		return nil, fmt.Errorf("package does not type-check: %v", pk.Errors[0])
	}
	p := &Prog{Fset: pk.Fset, Pkg: pk.Types, Info: pk.TypesInfo, Files: pk.Syntax, Funcs: map[string]*ast.FuncDecl{}, Sigs: map[string]SpecSig{}}
	for _, f := range pk.Syntax {
		for _, d := range f.Decls {
			fd, ok := d.(*ast.FuncDecl)
			if !ok || fd.Body == nil {
				continue
			}
			key := fd.Name.Name
			if fd.Recv != nil && len(fd.Recv.List) == 1 {
				key = recvTypeName(fd.Recv.List[0].Type) + "." + key
			}
			p.Funcs[key] = fd
		}
	}
	cf, err := parseContractFile(contractsPath)
	if err != nil {
		return nil, err
	}
	p.Contracts = cf
	pre, err := os.ReadFile(preludePath)
	if err != nil {
		return nil, err
	}
	p.Prelude = string(pre)
	p.initPrelude()
	reSig := regexp.MustCompile(`(?m)^;sig (\S+) : (.*)-> (.+)$`)
	for _, m := range reSig.FindAllStringSubmatch(p.Prelude, -1) {
		var sig SpecSig
		for _, a := range splitSorts(strings.TrimSpace(m[2])) {
			sig.Args = append(sig.Args, parseSort(a))
		}
		sig.Res = parseSort(strings.TrimSpace(m[3]))
		p.Sigs[m[1]] = sig
	}
	return p, nil
}

func splitSorts(s string) []string {
	var out []string
	depth := 0
	cur := ""
	for _, r := range s {
		switch r {
		case '(':
			depth++
		case ')':
			depth--
		}
		if r == ' ' && depth == 0 {
			if cur != "" {
				out = append(out, cur)
				cur = ""
			}
			continue
		}
		cur += string(r)
	}
	if cur != "" {
		out = append(out, cur)
	}
	return out
}

func parseSort(s string) Sort {
	switch s {
	case "U64", "(_ BitVec 64)":
		return S64
	case "U8", "(_ BitVec 8)":
		return S8
	case "Bool":
		return SBool
	case "Hash":
		return SHash
	}
	return Sort{K: KOpaque, Name: s}
}

// ---------------------------------------------------------------------------
// Function verification
// ---------------------------------------------------------------------------

func (p *Prog) genFunc(key string) (*FnCtx, error) {
	fd := p.Funcs[key]
	if fd == nil {
		return nil, fmt.Errorf("function %s not found in package", key)
	}
	c := newFnCtx(p, key)
	c.decl = fd
	c.fn = p.Info.Defs[fd.Name].(*types.Func)
	c.contract = p.Contracts.ByKey[key]
	sig := c.fn.Type().(*types.Signature)
	st := &State{pc: "true", env: map[types.Object]Val{}, cells: map[*Cell]Val{}}

	// ghost variables for the io contracts
	for _, g := range []string{"allFull", "ioBytes"} {
		var t types.Type = types.Typ[types.Bool]
		var v Val = SV{"true", SBool, false}
		if g == "ioBytes" {
			t = types.Typ[types.Int]
			v = SV{bvInt(0, 64), S64, true}
		}
		o := types.NewVar(fd.Pos(), p.Pkg, "$"+g, t)
		c.ghostObjs[g] = o
		st.env[o] = v
	}

	var pobjs []*types.Var
	if sig.Recv() != nil {
		pobjs = append(pobjs, sig.Recv())
	}
	for i := 0; i < sig.Params().Len(); i++ {
		pobjs = append(pobjs, sig.Params().At(i))
	}
	var cnames []string
	if c.contract != nil {
		cnames = c.contract.Params
		if len(cnames) != len(pobjs) {
			return nil, fmt.Errorf("contract of %s names %d parameters, function has %d (stale contract)", key, len(cnames), len(pobjs))
		}
	}
	for i, po := range pobjs {
		hint := po.Name()
		if hint == "" || hint == "_" {
			hint = fmt.Sprintf("p%d", i)
		}
		v, wf := c.freshVal(po.Type(), hint)
		for _, f := range wf {
			c.assume(st, f)
		}
		if pv, ok := v.(*PtrVal); ok {
			cv, wf2 := c.freshVal(po.Type().(*types.Pointer).Elem(), hint+"_cell")
			for _, f := range wf2 {
				c.assume(st, f)
			}
			st.cells[pv.Cell] = cv
			// receivers and pointer parameters are assumed non-nil (listed assumption)
			c.assume(st, pv.NonNil)
			c.assumptions["pointer parameters/receivers are non-nil"] = true
		}
		st.env[po] = v
		c.inputs = append(c.inputs, InputVar{Name: hint, Type: po.Type(), Val: v})
		if cnames != nil {
			c.entryCtr[cnames[i]] = v
		} else {
			c.entryCtr[po.Name()] = v
		}
	}
	// results
	for i := 0; i < sig.Results().Len(); i++ {
		ro := sig.Results().At(i)
		c.resTypes = append(c.resTypes, ro.Type())
		if ro.Name() != "" && ro.Name() != "_" {
			st.env[ro] = c.zeroVal(ro.Type(), ro.Name())
			c.resObjs = append(c.resObjs, ro)
		} else {
			c.resObjs = append(c.resObjs, nil)
		}
	}
	if c.contract != nil && len(c.contract.Results) > 0 && len(c.contract.Results) != sig.Results().Len() {
		return nil, fmt.Errorf("contract of %s names %d results, function has %d (stale contract)", key, len(c.contract.Results), sig.Results().Len())
	}
	c.entry = st.clone()
	if c.contract != nil {
		for _, rq := range c.contract.Requires {
			c.assume(st, c.evalClause(st, rq, nil))
		}
		if len(c.contract.Splits) > 0 {
			v := c.evalCExpr(st, c.contract.Splits[0].Expr, nil)
			if sv, ok := v.(SV); ok && sv.S.K == KBV {
				c.splitTerm = SV{c.define("splitv", sv.S, sv.T), sv.S, sv.Signed}
			}
		}
	}
	// vacuity: the preconditions must be satisfiable
	c.obls = append(c.obls, &Obl{Name: key + ".smoke.requires", Kind: "smoke", Desc: "preconditions are satisfiable", Prefix: len(c.log), PC: "true", Goal: "false", Pos: fd.Pos(), Smoke: true})

	c.numberLoops(fd.Body)
	out := c.execBlock(st, fd.Body.List)
	if out.normal != nil && out.normal.pc != "false" {
		// falling off the end
		var vals []Val
		for _, o := range c.resObjs {
			if o != nil {
				vals = append(vals, out.normal.env[o])
			}
		}
		c.rets = append(c.rets, out.normal)
		c.retVals = append(c.retVals, vals)
	}
	// merge the return states, carrying the result values in pseudo variables
	var robjs []types.Object
	for i, t := range c.resTypes {
		robjs = append(robjs, types.NewVar(fd.End(), p.Pkg, fmt.Sprintf("$res%d", i), t))
	}
	// ghost locals: postconditions may name them; zero value at returns where they are not in scope
	ghostObjs := map[string]types.Object{}
	if c.contract != nil {
		for _, g := range c.contract.Ghosts {
			for id, o := range p.Info.Defs {
				if o != nil && id.Name == g && id.Pos() >= fd.Body.Pos() && id.End() <= fd.Body.End() {
					if prev, ok := ghostObjs[g]; !ok || o.Pos() < prev.Pos() {
						ghostObjs[g] = o
					}
				}
			}
			if ghostObjs[g] == nil {
				return nil, fmt.Errorf("contract of %s: ghost local %s not found (stale contract)", key, g)
			}
		}
	}
	var rstates []*State
	for k, rs := range c.rets {
		s := rs.clone()
		for g, o := range ghostObjs {
			if _, ok := s.env[o]; !ok {
				s.env[o] = c.zeroVal(o.Type(), g)
			}
		}
		for i, o := range robjs {
			if i < len(c.retVals[k]) && c.retVals[k][i] != nil {
				s.env[o] = c.retVals[k][i]
			}
		}
		rstates = append(rstates, s)
	}
	final := c.mergeStates(rstates, "ret")
	if final != nil {
		c.obls = append(c.obls, &Obl{Name: key + ".smoke.return", Kind: "smoke", Desc: "some return is reachable", Prefix: len(c.log), PC: final.pc, Goal: "false", Pos: fd.End(), Smoke: true})
		if c.contract != nil {
			vars := map[string]Val{}
			for k, v := range c.entryCtr {
				vars[k] = v
			}
			for i, n := range c.contract.Results {
				if n != "_" {
					if v, ok := final.env[robjs[i]]; ok {
						vars[n] = v
					}
				}
			}
			env := &CEnv{vars: vars, old: c.entry, oldV: c.entryCtr}
			if c.contract.Pure {
				// frame: the pointees of pointer parameters are unchanged
				for _, in := range c.inputs {
					if pv, ok := in.Val.(*PtrVal); ok {
						g := valEqTerm(c.entry.cells[pv.Cell], final.cells[pv.Cell])
						c.obligeNamed(final, "frame."+in.Name, "frame", fd.End(), g, "pure: *"+in.Name+" is unchanged")
					}
				}
			}
			for k, en := range c.contract.Ensures {
				if len(rstates) > 1 && (strings.Contains(en.Text, "forall ") || strings.Contains(en.Text, "exists ") || strings.Contains(en.Text, "sortedStrict(") || strings.Contains(en.Text, "sortedRange(") || strings.Contains(en.Text, "allLess(")) {
					// quantified postconditions are checked return by return: on the merged state every array is an
					// ite over the return paths, which defeats quantifier instantiation
					for _, rs := range rstates {
						if rs.pc == "false" {
							continue
						}
						rvars := map[string]Val{}
						for kk, v := range c.entryCtr {
							rvars[kk] = v
						}
						for i, n := range c.contract.Results {
							if n != "_" {
								if v, ok := rs.env[robjs[i]]; ok {
									rvars[n] = v
								}
							}
						}
						renv := &CEnv{vars: rvars, old: c.entry, oldV: c.entryCtr}
						for _, ng := range c.clauseGoals(rs, en, renv) {
							c.obligeNamed(rs, fmt.Sprintf("post.%d%s", k+1, ng.suffix), "post", fd.End(), ng.goal, "postcondition: "+en.Text+ng.desc)
						}
					}
					continue
				}
				for _, ng := range c.clauseGoals(final, en, env) {
					c.obligeNamed(final, fmt.Sprintf("post.%d%s", k+1, ng.suffix), "post", fd.End(), ng.goal, "postcondition: "+en.Text+ng.desc)
				}
			}
		}
	}
	return c, nil
}

// genLemma: a lemma is a body-less pseudo function: assume requires, prove ensures; calls to repo
// functions in the clauses are replaced by their contracts.
func (p *Prog) genLemma(key string) (*FnCtx, error) {
	ct := p.Contracts.ByKey[key]
	if ct == nil {
		return nil, fmt.Errorf("lemma %s not found", key)
	}
	c := newFnCtx(p, key)
	c.contract = ct
	st := &State{pc: "true", env: map[types.Object]Val{}, cells: map[*Cell]Val{}}
	// parameter types from the header
	i := 0
	for _, f := range ct.Decl.Type.Params.List {
		tn := types.ExprString(f.Type)
		for range f.Names {
			name := ct.Params[i]
			i++
			var v Val
			if cw, ok := convWidths[tn]; ok {
				v = SV{c.fresh(name, BV(cw.w)), BV(cw.w), cw.sg}
			} else if tn == "Hash" {
				v = SV{c.fresh(name, SHash), SHash, false}
			} else if tn == "bool" {
				v = SV{c.fresh(name, SBool), SBool, false}
			} else {
				return nil, fmt.Errorf("lemma %s: parameter type %s not supported", key, tn)
			}
			c.entryCtr[name] = v
			c.inputs = append(c.inputs, InputVar{Name: name, Val: v})
		}
	}
	c.entry = st.clone()
	env := &CEnv{vars: c.entryCtr, old: c.entry, oldV: c.entryCtr, lemma: true}
	for _, rq := range ct.Requires {
		c.assume(st, c.evalClause(st, rq, env))
	}
	if len(ct.Splits) > 0 {
		if sv, ok := c.evalCExpr(st, ct.Splits[0].Expr, env).(SV); ok && sv.S.K == KBV {
			c.splitTerm = SV{c.define("splitv", sv.S, sv.T), sv.S, sv.Signed}
		}
	}
	c.obls = append(c.obls, &Obl{Name: key + ".smoke.requires", Kind: "smoke", Desc: "lemma hypotheses are satisfiable", Prefix: len(c.log), PC: "true", Goal: "false", Smoke: true})
	for k, en := range ct.Ensures {
		for _, ng := range c.clauseGoals(st, en, env) {
			c.obligeNamed(st, fmt.Sprintf("lemma.%d%s", k+1, ng.suffix), "lemma", token.NoPos, ng.goal, "lemma: "+en.Text+ng.desc)
		}
	}
	return c, nil
}

// ---------------------------------------------------------------------------
// Query construction
// ---------------------------------------------------------------------------

var reSym = regexp.MustCompile(`[A-Za-z_$][A-Za-z0-9_!$]*`)

func symbolsOf(s string) []string { return reSym.FindAllString(s, -1) }

type logLine struct {
	text   string
	kind   byte // 'd' declare, 'f' define, 'a' assert
	name   string
	syms   []string
	guard  string
}

var reDecl = regexp.MustCompile(`^\((declare-const|define-fun) (\S+) `)

func parseLog(log []string) []logLine {
	out := make([]logLine, len(log))
	for i, l := range log {
		ll := logLine{text: l}
		if m := reDecl.FindStringSubmatch(l); m != nil {
			ll.name = m[2]
			if m[1] == "declare-const" {
				ll.kind = 'd'
			} else {
				ll.kind = 'f'
				ll.syms = symbolsOf(l[len(m[0]):])
			}
		} else {
			ll.kind = 'a'
			ll.syms = symbolsOf(l)
		}
		out[i] = ll
	}
	return out
}

// buildQuery slices the log to the cone of influence of the obligation.
func (c *FnCtx) buildQuery(parsed []logLine, o *Obl, extra []string, full bool) string {
	return c.buildQueryQ(parsed, o, extra, full, true)
}

// buildQueryQ: with quant=false the quantified facts (append/copy frame axioms, quantified invariants) are left
// out; dropping facts only weakens the context, so an `unsat` answer is still a proof.
func (c *FnCtx) buildQueryQ(parsed []logLine, o *Obl, extra []string, full bool, quant bool) string {
	rel := map[string]bool{}
	add := func(ss []string) {
		for _, s := range ss {
			rel[s] = true
		}
	}
	add(symbolsOf(o.PC))
	add(symbolsOf(o.Goal))
	for _, e := range extra {
		add(symbolsOf(e))
	}
	keep := make([]bool, o.Prefix)
	defIdx := map[string]int{}
	for i := 0; i < o.Prefix; i++ {
		if parsed[i].kind != 'a' {
			defIdx[parsed[i].name] = i
		}
	}
	// closure over definitions
	var closeDefs func()
	closeDefs = func() {
		changed := true
		for changed {
			changed = false
			for i := o.Prefix - 1; i >= 0; i-- {
				ll := parsed[i]
				if ll.kind == 'a' || keep[i] || !rel[ll.name] {
					continue
				}
				keep[i] = true
				changed = true
				add(ll.syms)
			}
		}
	}
	closeDefs()
	// facts: keep those sharing a non-pc symbol with the relevant set (fixpoint)
	isPc := func(s string) bool { return strings.HasPrefix(s, "pc!") }
	changed := true
	for changed {
		changed = false
		for i := 0; i < o.Prefix; i++ {
			ll := parsed[i]
			if ll.kind != 'a' || keep[i] {
				continue
			}
			hit := full
			if !hit {
				for _, s := range ll.syms {
					if !isPc(s) && rel[s] && (defIdx[s] > 0 || isDeclared(parsed, defIdx, s)) {
						hit = true
						break
					}
				}
			}
			if hit {
				keep[i] = true
				add(ll.syms)
				changed = true
			}
		}
		if changed {
			closeDefs()
		}
	}
	var b strings.Builder
	b.WriteString(c.prog.preludeFor(rel))
	for _, s := range c.sortDecls {
		b.WriteString(s + "\n")
	}
	for i := 0; i < o.Prefix; i++ {
		if keep[i] {
			if !quant && parsed[i].kind == 'a' && (strings.Contains(parsed[i].text, "(forall ") || strings.Contains(parsed[i].text, "(exists ")) {
				continue
			}
			b.WriteString(parsed[i].text + "\n")
		}
	}
	for _, e := range extra {
		b.WriteString("(assert " + e + ")\n")
	}
	b.WriteString("(assert " + o.PC + ")\n")
	b.WriteString("(assert " + not(o.Goal) + ")\n")
	b.WriteString("(check-sat)\n")
	return b.String()
}

// preludeFor returns the prelude restricted to the definitions reachable from the given symbols.
func (p *Prog) initPrelude() {
	{
		for _, line := range strings.Split(p.Prelude, "\n") {
			if strings.HasPrefix(line, ";") || strings.TrimSpace(line) == "" {
				continue
			}
			it := preItem{text: line}
			if m := rePre.FindStringSubmatch(line); m != nil {
				it.name = m[1]
				it.syms = symbolsOf(line)
			}
			p.preItems = append(p.preItems, it)
		}
	}
}

func (p *Prog) preludeFor(rel map[string]bool) string {
	need := map[string]bool{}
	for s := range rel {
		need[s] = true
	}
	keep := make([]bool, len(p.preItems))
	for i := len(p.preItems) - 1; i >= 0; i-- {
		it := p.preItems[i]
		if it.name == "" || need[it.name] {
			keep[i] = true
			for _, s := range it.syms {
				need[s] = true
			}
		}
	}
	var b strings.Builder
	for i, it := range p.preItems {
		if keep[i] {
			b.WriteString(it.text + "\n")
		}
	}
	return b.String()
}

type preItem struct {
	text string
	name string
	syms []string
}

var rePre = regexp.MustCompile(`^\((?:define-fun|declare-fun|declare-const) (\S+) `)

func isDeclared(parsed []logLine, defIdx map[string]int, s string) bool {
	_, ok := defIdx[s]
	return ok
}

// ---------------------------------------------------------------------------
// Results
// ---------------------------------------------------------------------------

type OblResult struct {
	Name     string            `json:"name"`
	Func     string            `json:"func"`
	Kind     string            `json:"kind"`
	Desc     string            `json:"desc"`
	Pos      string            `json:"pos,omitempty"`
	Status   string            `json:"status"` // proved | failed | unknown
	Solver   string            `json:"solver,omitempty"`
	TimeS    float64           `json:"time_s"`
	Queries  int               `json:"queries"`
	Split    string            `json:"split,omitempty"`
	Model    map[string]string `json:"model,omitempty"`
	FailCase string            `json:"fail_case,omitempty"`
	Output   string            `json:"solver_output,omitempty"`
	Smoke    bool              `json:"smoke,omitempty"`
	Elems    map[string]string `json:"model_elements,omitempty"`
	ReplaySrc string           `json:"replay_test_src,omitempty"`
	NoReplay string            `json:"no_replay_reason,omitempty"`
}

type FuncResult struct {
	Key          string      `json:"key"`
	Obligations  []OblResult `json:"obligations"`
	Unsupported  []string    `json:"unsupported,omitempty"`
	Assumptions  []string    `json:"assumptions,omitempty"`
	Uncontracted []string    `json:"uncontracted_callees,omitempty"`
	Externs      []string    `json:"assumed_external_contracts,omitempty"`
	NoMeasure    []string    `json:"loops_without_termination_measure,omitempty"`
	Error        string      `json:"error,omitempty"`
	Deferred     string      `json:"deferred,omitempty"`
	NoContract   bool        `json:"no_contract,omitempty"`
	UsedLemmas   []string    `json:"used_lemmas,omitempty"`
	Trusted      bool        `json:"trusted,omitempty"`
	Inputs       []string    `json:"inputs,omitempty"`
	GenTimeS     float64     `json:"gen_time_s"`
}

type Report struct {
	Funcs     []FuncResult `json:"funcs"`
	WallS     float64      `json:"wall_s"`
	SolverS   float64      `json:"solver_time_s"`
	Queries   int          `json:"queries"`
	Retried   int          `json:"retried_after_timeout"`
	BySolver  map[string]int `json:"discharged_by_solver"`
}

func main() {
	repo := flag.String("repo", "/repo", "repository to verify")
	contracts := flag.String("contracts", "", "contract file (default <repo>/verif_contracts.go)")
	prelude := flag.String("prelude", "/verif/spec/prelude.smt2", "SMT prelude")
	funcs := flag.String("funcs", "", "comma-separated function keys / lemma:names ('all' = every contract)")
	timeout := flag.Float64("timeout", 5, "per-query timeout (s)")
	jobs := flag.Int("jobs", 16, "parallel solver processes")
	outPath := flag.String("out", "", "write JSON report here")
	dumpDir := flag.String("dump", "", "dump SMT queries of failed/unknown obligations here")
	verbose := flag.Bool("v", false, "verbose")
	tier := flag.String("tier", "quick", "quick | thorough (thorough also runs contracts marked `tier thorough`)")
	ground := flag.String("ground", "", "ground re-check request (JSON file): evaluate a failed postcondition on observed results")
	budget := flag.Float64("budget", 0, "global wall-clock budget in seconds (0 = none); remaining queries report unknown")
	flag.Parse()
	if *contracts == "" {
		*contracts = *repo + "/verif_contracts.go"
	}
	t0 := time.Now()
	parseTier = *tier
	prog, err := loadProg(*repo, *contracts, *prelude)
	if err != nil {
		fmt.Fprintln(os.Stderr, "govc: load:", err)
		os.Exit(2)
	}
	if *ground != "" {
		data, err := os.ReadFile(*ground)
		if err != nil {
			fmt.Println("GROUND: not applicable (", err, ")")
			return
		}
		var req groundReq
		json.Unmarshal(data, &req)
		fmt.Println(runGround(prog, req))
		return
	}
	var keys []string
	if *funcs == "all" {
		keys = prog.Contracts.Order
	} else {
		for _, k := range strings.Split(*funcs, ",") {
			if k = strings.TrimSpace(k); k != "" {
				keys = append(keys, k)
			}
		}
	}
	rep := &Report{BySolver: map[string]int{}}
	pool := newSolverPool(*jobs, *timeout, *dumpDir)
	if *budget > 0 {
		pool.deadline = t0.Add(time.Duration(*budget * float64(time.Second)))
	}
	var ctxs []*FnCtx
	seenKey := map[string]bool{}
	for ki := 0; ki < len(keys); ki++ {
		k := keys[ki]
		if seenKey[k] {
			continue
		}
		seenKey[k] = true
		tg := time.Now()
		var c *FnCtx
		var err error
		if ct := prog.Contracts.ByKey[k]; ct != nil && ct.Tier == "thorough" && *tier != "thorough" {
			rep.Funcs = append(rep.Funcs, FuncResult{Key: k, Deferred: "marked `tier thorough`: not run in the quick tier"})
			continue
		}
		if ct := prog.Contracts.ByKey[k]; ct != nil && ct.Trusted {
			rep.Funcs = append(rep.Funcs, FuncResult{Key: k, Trusted: true, Assumptions: []string{"trusted contract (assumed, not verified)"}})
			continue
		}
		if strings.HasPrefix(k, "lemma:") {
			c, err = prog.genLemma(k)
		} else {
			c, err = prog.genFunc(k)
		}
		fr := FuncResult{Key: k, GenTimeS: time.Since(tg).Seconds()}
		if prog.Contracts.ByKey[k] == nil {
			fr.NoContract = true
		}
		if err != nil {
			fr.Error = err.Error()
			rep.Funcs = append(rep.Funcs, fr)
			ctxs = append(ctxs, nil)
			continue
		}
		fr.Unsupported = c.unsupported
		fr.Assumptions = sortedSet(c.assumptions)
		fr.Uncontracted = sortedSet(c.uncontracted)
		fr.Externs = sortedSet(c.externUsed)
		fr.NoMeasure = c.noMeasure
		fr.UsedLemmas = sortedSet(c.usedLemmas)
		for _, l := range fr.UsedLemmas {
			if !seenKey[l] {
				keys = append(keys, l) // a used lemma is always proved in the same run
			}
		}
		for _, in := range c.inputs {
			fr.Inputs = append(fr.Inputs, in.Name)
		}
		rep.Funcs = append(rep.Funcs, fr)
		ctxs = append(ctxs, c)
	}
	// solve
	idx := 0
	for fi := range rep.Funcs {
		if rep.Funcs[fi].Error != "" || rep.Funcs[fi].Trusted || rep.Funcs[fi].Deferred != "" {
			if rep.Funcs[fi].Error != "" {
				idx++
			}
			continue
		}
		c := ctxs[idx]
		idx++
		pool.submitFunc(c, &rep.Funcs[fi])
	}
	pool.wait()
	for fi := range rep.Funcs {
		sort.SliceStable(rep.Funcs[fi].Obligations, func(a, b int) bool { return rep.Funcs[fi].Obligations[a].Name < rep.Funcs[fi].Obligations[b].Name })
		for _, o := range rep.Funcs[fi].Obligations {
			if o.Status == "proved" && !o.Smoke {
				rep.BySolver[o.Solver]++
			}
		}
	}
	rep.WallS = time.Since(t0).Seconds()
	rep.SolverS = pool.solverTime()
	rep.Queries = pool.queries()
	rep.Retried = pool.retries
	if *outPath != "" {
		data, _ := json.MarshalIndent(rep, "", " ")
		os.WriteFile(*outPath, data, 0o644)
	}
	// console summary
	bad := 0
	for _, f := range rep.Funcs {
		if f.Error != "" {
			fmt.Printf("ERROR %s: %s\n", f.Key, f.Error)
			bad++
			continue
		}
		np, nf, nu := 0, 0, 0
		for _, o := range f.Obligations {
			if o.Smoke {
				if o.Status != "proved" {
					fmt.Printf("  VACUOUS %s: %s (%s)\n", o.Name, o.Desc, o.Status)
					bad++
				}
				continue
			}
			switch o.Status {
			case "proved":
				np++
			case "failed":
				nf++
				bad++
				fmt.Printf("  FAILED  %s [%s] %s %s model=%v %s\n", o.Name, o.Pos, o.Desc, o.Split, o.Model, o.FailCase)
			default:
				nu++
				bad++
				fmt.Printf("  UNKNOWN %s [%s] %s %s\n", o.Name, o.Pos, o.Desc, o.Split)
			}
		}
		if *verbose || nf+nu > 0 || len(f.Unsupported) > 0 {
			fmt.Printf("%-40s proved=%d failed=%d unknown=%d unsupported=%d\n", f.Key, np, nf, nu, len(f.Unsupported))
			for _, u := range f.Unsupported {
				fmt.Printf("  UNSUPPORTED %s\n", u)
			}
		}
	}
	fmt.Printf("govc: %d functions, %d queries, solver %.1fs, wall %.1fs\n", len(rep.Funcs), rep.Queries, rep.SolverS, rep.WallS)
	if bad > 0 {
		os.Exit(1)
	}
}

func sortedSet(m map[string]bool) []string {
	var out []string
	for k := range m {
		out = append(out, k)
	}
	sort.Strings(out)
	return out
}

// valEqTerm: structural equality of two values of the same shape (used for frame obligations).
func valEqTerm(a, b Val) string {
	switch x := a.(type) {
	case SV:
		y, ok := b.(SV)
		if !ok {
			return "false"
		}
		if x.T == y.T {
			return "true"
		}
		return app("=", x.T, y.T)
	case *StructVal:
		y, ok := b.(*StructVal)
		if !ok {
			return "false"
		}
		var cs []string
		for _, f := range x.Order {
			cs = append(cs, valEqTerm(x.F[f], y.F[f]))
		}
		return and(cs...)
	case *SliceVal:
		y, ok := b.(*SliceVal)
		if !ok {
			return "false"
		}
		cs := []string{}
		if x.Len != y.Len {
			cs = append(cs, app("=", x.Len, y.Len))
		}
		if x.off() != y.off() {
			cs = append(cs, app("=", x.off(), y.off()))
		}
		for p, t := range x.Leaves {
			if t != y.Leaves[p] {
				cs = append(cs, app("=", t, y.Leaves[p]))
			}
		}
		return and(cs...)
	case *PtrVal:
		y, ok := b.(*PtrVal)
		if !ok || x.Cell != y.Cell {
			return "false"
		}
		return "true"
	case OpaqueVal:
		return "true" // untracked state (maps, interfaces): not part of the frame obligation
	}
	return "true"
}
