package main

import (
	"fmt"
	"golang.org/x/tools/go/packages"
)

func main() {
	cfg := &packages.Config{Mode: packages.NeedSyntax | packages.NeedTypes | packages.NeedTypesInfo | packages.NeedName | packages.NeedFiles, Dir: "/repo", BuildFlags: []string{"-tags=verif"}}
	pkgs, err := packages.Load(cfg, ".")
	fmt.Println(len(pkgs), err)
	for _, p := range pkgs { fmt.Println(p.Name, len(p.Syntax), p.Errors) }
}
