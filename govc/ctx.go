package main

import (
	"fmt"
	"go/ast"
	"go/token"
	"go/types"
	"strings"
)

// Prog is the loaded package plus the contracts and the spec prelude.
type Prog struct {
	Fset      *token.FileSet
	Pkg       *types.Package
	Info      *types.Info
	Files     []*ast.File
	Funcs     map[string]*ast.FuncDecl // key "Name" or "Recv.Name"
	Contracts *ContractFile
	Prelude   string
	Sigs      map[string]SpecSig
	preItems  []preItem
}

type SpecSig struct {
	Args []Sort
	Res  Sort
}

// Obl is one proof obligation:  log[:Prefix] |- PC => Goal.
type Obl struct {
	Name   string // stable: <func>.<kind>.<ordinal>
	Visit  int    // n-th visit of the same site (unrolled loops)
	Kind   string
	Desc   string
	Prefix int
	PC     string
	Goal   string
	Pos    token.Pos
	Smoke  bool // must be satisfiable (vacuity guard), not a real obligation
}

type FnCtx struct {
	prog      *Prog
	key       string
	decl      *ast.FuncDecl
	fn        *types.Func
	contract  *Contract
	log       []string
	sortDecls []string
	opaque    map[string]bool
	obls      []*Obl
	nfresh    int
	entry     *State
	entryCtr  map[string]Val // contract-name -> entry value
	resNames  []string
	resObjs   []types.Object
	resTypes  []types.Type
	rets      []*State
	retVals   [][]Val
	siteOrd   map[string]int
	siteSeen  map[siteKey]string
	visits    map[string]int
	unsupported []string
	loopOrd   int
	loopOf    map[ast.Stmt]int
	ghostObjs map[string]types.Object // ghost variables (allFull, ioBytes)
	noMeasure []string
	foreachCtr int // ordinal of the next X.ForEach(func literal) call met by the symbolic execution
	uncontracted map[string]bool
	externUsed map[string]bool
	visitsPre map[string]int
	curState  *State
	inputs    []InputVar // parameters, for replay
	assumptions map[string]bool
	splitTerm Val
	usedLemmas map[string]bool
	inReturn   bool
}

type siteKey struct {
	pos  token.Pos
	kind string
}

type InputVar struct {
	Name string
	Type types.Type
	Val  Val
}

func newFnCtx(p *Prog, key string) *FnCtx {
	return &FnCtx{prog: p, key: key, opaque: map[string]bool{}, siteOrd: map[string]int{}, siteSeen: map[siteKey]string{},
		visits: map[string]int{}, loopOf: map[ast.Stmt]int{}, ghostObjs: map[string]types.Object{}, uncontracted: map[string]bool{}, externUsed: map[string]bool{}, visitsPre: map[string]int{}, usedLemmas: map[string]bool{}, entryCtr: map[string]Val{}, assumptions: map[string]bool{}}
}

func (c *FnCtx) fresh(hint string, s Sort) string {
	c.nfresh++
	name := fmt.Sprintf("%s!%d", sanitize(hint), c.nfresh)
	c.log = append(c.log, fmt.Sprintf("(declare-const %s %s)", name, s.String()))
	return name
}

func (c *FnCtx) define(hint string, s Sort, term string) string {
	// avoid trivial re-definitions
	if !strings.ContainsAny(term, " (") {
		return term
	}
	c.nfresh++
	name := fmt.Sprintf("%s!%d", sanitize(hint), c.nfresh)
	c.log = append(c.log, fmt.Sprintf("(define-fun %s () %s %s)", name, s.String(), term))
	return name
}

// assume records a fact that holds whenever the state's path condition holds.
func (c *FnCtx) assume(st *State, fact string) {
	if fact == "true" {
		return
	}
	c.log = append(c.log, "(assert "+implies(st.pc, fact)+")")
}

// oblige records a proof obligation at a source site.
func (c *FnCtx) oblige(st *State, kind string, pos token.Pos, goal, desc string) {
	if goal == "true" || st.pc == "false" {
		// still count the site so that ordinals are stable
		c.siteName(kind, pos)
		return
	}
	name := c.siteName(kind, pos)
	c.visits[name]++
	c.obls = append(c.obls, &Obl{Name: name, Visit: c.visits[name], Kind: kind, Desc: desc, Prefix: len(c.log), PC: st.pc, Goal: goal, Pos: pos})
}

// obligeNamed records an obligation with an explicit stable name (post.N, inv-entry.loopK.N, ...).
func (c *FnCtx) obligeNamed(st *State, name, kind string, pos token.Pos, goal, desc string) {
	if st == nil || st.pc == "false" {
		return
	}
	full := c.key + "." + name
	c.visits[full]++
	c.obls = append(c.obls, &Obl{Name: full, Visit: c.visits[full], Kind: kind, Desc: desc, Prefix: len(c.log), PC: st.pc, Goal: goal, Pos: pos})
}

func (c *FnCtx) siteName(kind string, pos token.Pos) string {
	k := siteKey{pos, kind}
	if n, ok := c.siteSeen[k]; ok {
		return n
	}
	c.siteOrd[kind]++
	n := fmt.Sprintf("%s.%s.%d", c.key, kind, c.siteOrd[kind])
	c.siteSeen[k] = n
	return n
}

func (c *FnCtx) unsupportedf(pos token.Pos, format string, args ...interface{}) {
	msg := fmt.Sprintf(format, args...)
	if pos.IsValid() {
		msg = fmt.Sprintf("%s: %s", c.prog.Fset.Position(pos), msg)
	}
	c.unsupported = append(c.unsupported, msg)
}

func (c *FnCtx) pcAnd(st *State, cond string) string {
	return c.define("pc", SBool, and(st.pc, cond))
}

func (c *FnCtx) posStr(p token.Pos) string {
	ps := c.prog.Fset.Position(p)
	return fmt.Sprintf("%s:%d", shortFile(ps.Filename), ps.Line)
}

func shortFile(f string) string {
	if k := strings.LastIndex(f, "/"); k >= 0 {
		return f[k+1:]
	}
	return f
}
