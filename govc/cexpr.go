package main

import (
	"fmt"
	"go/ast"
	"go/token"
	"go/types"
	"math/big"
	"strconv"
	"strings"
)

// CEnv is the environment of a contract expression.
type CEnv struct {
	vars  map[string]Val
	old   *State // state for old(...): entry state of the function / pre-state of the call
	oldV  map[string]Val
	bound map[string]Val
	lemma bool // repo functions may be called (by contract)
	localsFirst bool // loop invariants: names denote the current locals (parameters are mutable), old(x) the entry value
}

// untyped integer constant in a contract expression
type UConst struct{ V *big.Int }

func (UConst) isVal() {}

func (c *FnCtx) evalClause(st *State, cl Clause, env *CEnv) string {
	v := c.evalCExpr(st, cl.Expr, env)
	if s, ok := v.(SV); ok && s.S.K == KBool {
		return s.T
	}
	c.unsupportedf(token.NoPos, "contract clause is not boolean: %s", cl.Text)
	return "true"
}

type namedGoal struct {
	suffix string
	goal   string
	desc   string
}

// clauseGoals evaluates a clause; a top-level `each v in lo..hi: body` with constant bounds (possibly
// behind implications) is expanded into one goal per instance.
func (c *FnCtx) clauseGoals(st *State, cl Clause, env *CEnv) []namedGoal {
	env = c.cenvDefault(env)
	var hyps []string
	e := cl.Expr
	for {
		call, ok := e.(*ast.CallExpr)
		if !ok {
			break
		}
		id, ok := call.Fun.(*ast.Ident)
		if !ok {
			break
		}
		if id.Name == "implies_" {
			hyps = append(hyps, c.ceBool(st, call.Args[0], env))
			e = call.Args[1]
			continue
		}
		if id.Name == "each_" {
			vn := call.Args[0].(*ast.Ident).Name
			lo, ok1 := call.Args[1].(*ast.BasicLit)
			hi, ok2 := call.Args[2].(*ast.BasicLit)
			if !ok1 || !ok2 {
				c.unsupportedf(token.NoPos, "each: bounds must be integer literals")
				break
			}
			var out []namedGoal
			for k := atoi(lo.Value); k < atoi(hi.Value); k++ {
				nenv := *env
				nenv.bound = map[string]Val{}
				for kk, v := range env.bound {
					nenv.bound[kk] = v
				}
				nenv.bound[vn] = UConst{big.NewInt(int64(k))}
				g := c.ceBool(st, call.Args[3], &nenv)
				out = append(out, namedGoal{fmt.Sprintf("#%s=%d", vn, k), implies(and(hyps...), g), fmt.Sprintf(" [%s=%d]", vn, k)})
			}
			return out
		}
		break
	}
	return []namedGoal{{"", c.evalClause(st, cl, env), ""}}
}

func (c *FnCtx) cenvDefault(env *CEnv) *CEnv {
	if env != nil {
		return env
	}
	return &CEnv{vars: c.entryCtr, old: c.entry, oldV: c.entryCtr, localsFirst: true}
}

func (c *FnCtx) evalCExpr(st *State, e ast.Expr, env *CEnv) Val {
	env = c.cenvDefault(env)
	return c.ce(st, e, env, nil)
}

// materialize an untyped constant at a sort
func (c *FnCtx) mat(v Val, want *SV) Val {
	u, ok := v.(UConst)
	if !ok {
		return v
	}
	if want != nil && want.S.K == KBV {
		return SV{bvConst(u.V, want.S.W), want.S, want.Signed}
	}
	return SV{bvConst(u.V, 64), S64, true}
}

func (c *FnCtx) ce(st *State, e ast.Expr, env *CEnv, want *SV) Val {
	switch x := e.(type) {
	case *ast.ParenExpr:
		return c.ce(st, x.X, env, want)
	case *ast.BasicLit:
		if x.Kind == token.INT {
			bi, ok := new(big.Int).SetString(x.Value, 0)
			if !ok {
				c.unsupportedf(token.NoPos, "bad integer literal %s", x.Value)
				bi = big.NewInt(0)
			}
			return c.mat(UConst{bi}, want)
		}
	case *ast.Ident:
		return c.ceIdent(st, x, env)
	case *ast.UnaryExpr:
		switch x.Op {
		case token.NOT:
			return SV{not(c.ceBool(st, x.X, env)), SBool, false}
		case token.SUB:
			v := c.ce(st, x.X, env, want)
			if u, ok := v.(UConst); ok {
				return c.mat(UConst{new(big.Int).Neg(u.V)}, want)
			}
			s := v.(SV)
			return SV{app("bvneg", s.T), s.S, s.Signed}
		case token.XOR:
			s, ok := c.ce(st, x.X, env, want).(SV)
			if ok {
				return SV{app("bvnot", s.T), s.S, s.Signed}
			}
		}
	case *ast.BinaryExpr:
		return c.ceBinary(st, x, env, want)
	case *ast.CallExpr:
		return c.ceCall(st, x, env, want)
	case *ast.SelectorExpr:
		base := c.ce(st, x.X, env, nil)
		return c.ceField(st, base, x.Sel.Name, env)
	case *ast.IndexExpr:
		base := c.ce(st, x.X, env, nil)
		if mv, isSV := base.(SV); isSV && mv.S.K == KArray {
			// locally made integer map: select
			i64 := SV{"", S64, false}
			if kv, ok := c.mat(c.ce(st, x.Index, env, &i64), &i64).(SV); ok {
				return SV{app("select", mv.T, resize(kv.T, kv.S.W, 64, kv.Signed)), *mv.S.Elem, mv.Signed}
			}
		}
		sl, ok := base.(*SliceVal)
		if !ok {
			c.unsupportedf(token.NoPos, "contract: index of non-slice")
			return SV{c.fresh("unk", S64), S64, false}
		}
		i64 := SV{"", S64, true}
		iv, ok := c.mat(c.ce(st, x.Index, env, &i64), &i64).(SV)
		if !ok {
			return SV{c.fresh("unk", S64), S64, false}
		}
		return c.elemAt(sl, resize(iv.T, iv.S.W, 64, iv.Signed), "ce")
	case *ast.SliceExpr:
		base, ok := c.ce(st, x.X, env, nil).(*SliceVal)
		if ok {
			i64 := SV{"", S64, true}
			lo, hi := bvInt(0, 64), base.Len
			if x.Low != nil {
				lo = c.mat(c.ce(st, x.Low, env, &i64), &i64).(SV).T
			}
			if x.High != nil {
				hi = c.mat(c.ce(st, x.High, env, &i64), &i64).(SV).T
			}
			r := base.copyHdr()
			r.Off = app("bvadd", base.off(), lo)
			r.Len = app("bvsub", hi, lo)
			r.Cap = app("bvsub", base.Cap, lo)
			return r
		}
	}
	c.unsupportedf(token.NoPos, "contract expression %T not supported", e)
	return SV{c.fresh("unk", SBool), SBool, false}
}

func (c *FnCtx) ceBool(st *State, e ast.Expr, env *CEnv) string {
	v := c.ce(st, e, env, nil)
	if s, ok := v.(SV); ok && s.S.K == KBool {
		return s.T
	}
	c.unsupportedf(token.NoPos, "contract: expected boolean")
	return c.fresh("unk", SBool)
}

func (c *FnCtx) ceIdent(st *State, x *ast.Ident, env *CEnv) Val {
	switch x.Name {
	case "true":
		return SV{"true", SBool, false}
	case "false":
		return SV{"false", SBool, false}
	case "empty":
		return SV{"empty", SHash, false}
	case "nil":
		return OpaqueVal{nil}
	}
	if v, ok := env.bound[x.Name]; ok {
		return v
	}
	if strings.HasPrefix(x.Name, "iterlen_") && st != nil {
		// the length (evaluated once) of the slice range loop N iterates over
		for o := range st.env {
			if o.Name() == "$n"+strings.TrimPrefix(x.Name, "iterlen_") {
				return st.env[o]
			}
		}
	}
	if strings.HasPrefix(x.Name, "iter_") && st != nil {
		// the hidden index of range loop N
		for o := range st.env {
			if o.Name() == "$i"+strings.TrimPrefix(x.Name, "iter_") {
				return st.env[o]
			}
		}
	}
	if env.localsFirst && st != nil {
		var found types.Object
		for o := range st.env {
			if o.Name() == x.Name && (found == nil || o.Pos() > found.Pos()) {
				found = o
			}
		}
		if found != nil {
			return st.env[found]
		}
	}
	if v, ok := env.vars[x.Name]; ok {
		return v
	}
	if o := c.ghostObjs[x.Name]; o != nil && st != nil {
		if v, ok := st.env[o]; ok {
			return v
		}
	}
	// a local variable of the function under verification (loop invariants)
	if st != nil {
		var found types.Object
		for o := range st.env {
			if o.Name() == x.Name {
				if found == nil || o.Pos() > found.Pos() {
					found = o
				}
			}
		}
		if found != nil {
			return st.env[found]
		}
	}
	c.unsupportedf(token.NoPos, "contract: unknown identifier %s", x.Name)
	return SV{c.fresh("unk_"+x.Name, S64), S64, false}
}

func (c *FnCtx) ceField(st *State, base Val, name string, env *CEnv) Val {
	switch b := base.(type) {
	case *StructVal:
		if v, ok := b.F[name]; ok {
			return v
		}
		for _, f := range b.Order {
			if inner, ok := b.F[f].(*StructVal); ok {
				if v, ok := inner.F[name]; ok {
					return v
				}
			}
		}
	case *PtrVal:
		if st != nil {
			if cell, ok := st.cells[b.Cell].(*StructVal); ok {
				return c.ceField(st, cell, name, env)
			}
		}
	}
	c.unsupportedf(token.NoPos, "contract: field %s of %T", name, base)
	return SV{c.fresh("unk_"+name, S64), S64, false}
}

func (c *FnCtx) ceBinary(st *State, x *ast.BinaryExpr, env *CEnv, want *SV) Val {
	switch x.Op {
	case token.LAND:
		return SV{and(c.ceBool(st, x.X, env), c.ceBool(st, x.Y, env)), SBool, false}
	case token.LOR:
		return SV{or(c.ceBool(st, x.X, env), c.ceBool(st, x.Y, env)), SBool, false}
	}
	isCmp := x.Op == token.EQL || x.Op == token.NEQ || x.Op == token.LSS || x.Op == token.LEQ || x.Op == token.GTR || x.Op == token.GEQ
	isShift := x.Op == token.SHL || x.Op == token.SHR
	var lw *SV
	if !isCmp {
		lw = want
	}
	l := c.ce(st, x.X, env, lw)
	var r Val
	if isShift {
		r = c.ce(st, x.Y, env, nil)
		r = c.mat(r, &SV{"", S64, false})
		l = c.mat(l, want)
		ls, ok1 := l.(SV)
		rs, ok2 := r.(SV)
		if !ok1 || !ok2 || ls.S.K != KBV || rs.S.K != KBV {
			c.unsupportedf(token.NoPos, "contract: bad shift operands")
			return SV{c.fresh("unk", S64), S64, false}
		}
		return SV{shiftTerm(x.Op, ls, rs), ls.S, ls.Signed}
	}
	if ls, ok := l.(SV); ok {
		r = c.ce(st, x.Y, env, &ls)
		r = c.mat(r, &ls)
	} else {
		r = c.ce(st, x.Y, env, lw)
		if rs, ok := r.(SV); ok {
			l = c.mat(l, &rs)
		} else if lu, ok := l.(UConst); ok {
			if ru, ok := r.(UConst); ok {
				// constant folding
				var z big.Int
				switch x.Op {
				case token.ADD:
					z.Add(lu.V, ru.V)
				case token.SUB:
					z.Sub(lu.V, ru.V)
				case token.MUL:
					z.Mul(lu.V, ru.V)
				default:
					c.unsupportedf(token.NoPos, "contract: constant operator %s", x.Op)
				}
				return c.mat(UConst{&z}, want)
			}
		}
	}
	// nil comparisons
	if _, isNil := r.(OpaqueVal); isNil && isCmp {
		return SV{c.ceNilCmp(l, x.Op), SBool, false}
	}
	if _, isNil := l.(OpaqueVal); isNil && isCmp {
		return SV{c.ceNilCmp(r, x.Op), SBool, false}
	}
	ls, ok1 := l.(SV)
	rs, ok2 := r.(SV)
	if !ok1 || !ok2 {
		c.unsupportedf(token.NoPos, "contract: operands of %s are not scalars (%T, %T)", x.Op, l, r)
		return SV{c.fresh("unk", SBool), SBool, false}
	}
	if !ls.S.Eq(rs.S) {
		c.unsupportedf(token.NoPos, "contract: sort mismatch in %s: %s vs %s (%s)", x.Op, ls.S, rs.S, exprString(x))
		return SV{c.fresh("unk", SBool), SBool, false}
	}
	if x.Op == token.EQL {
		return SV{app("=", ls.T, rs.T), SBool, false}
	}
	if x.Op == token.NEQ {
		return SV{not(app("=", ls.T, rs.T)), SBool, false}
	}
	if ls.S.K != KBV {
		c.unsupportedf(token.NoPos, "contract: arithmetic on non-integers")
		return SV{c.fresh("unk", SBool), SBool, false}
	}
	ls.Signed = ls.Signed || rs.Signed
	// contract arithmetic has no division-by-zero obligations: use a throwaway state
	tmp := &State{pc: "false"}
	return c.arith(tmp, x.Op, ls, rs, token.NoPos)
}

func (c *FnCtx) ceNilCmp(v Val, op token.Token) string {
	var isNil string
	switch x := v.(type) {
	case SV: // error
		if x.S.K == KBool {
			isNil = not(x.T)
		}
	case *SliceVal:
		isNil = x.nilTerm()
	case *PtrVal:
		isNil = not(x.NonNil)
	case *StructVal:
		if nn, ok := x.F["$nonnil"].(SV); ok {
			isNil = not(nn.T)
		}
	}
	if isNil == "" {
		c.unsupportedf(token.NoPos, "contract: nil comparison on %T", v)
		return c.fresh("unk", SBool)
	}
	if op == token.NEQ {
		return not(isNil)
	}
	return isNil
}

func exprString(e ast.Expr) string {
	return fmt.Sprintf("%v", types.ExprString(e))
}

var convWidths = map[string]struct {
	w  int
	sg bool
}{"uint64": {64, false}, "uint32": {32, false}, "uint16": {16, false}, "uint8": {8, false}, "byte": {8, false},
	"int": {64, true}, "int64": {64, true}, "int32": {32, true}, "int16": {16, true}, "int8": {8, true}, "uint": {64, false}}

func (c *FnCtx) ceCall(st *State, x *ast.CallExpr, env *CEnv, want *SV) Val {
	id, ok := x.Fun.(*ast.Ident)
	if !ok {
		// method call on a value, e.g. a.Len()
		if sel, ok := x.Fun.(*ast.SelectorExpr); ok && sel.Sel.Name == "Len" && len(x.Args) == 0 {
			if sv, ok := c.ce(st, sel.X, env, nil).(*StructVal); ok {
				if p, ok := sv.F["positions"].(*SliceVal); ok {
					return SV{p.Len, S64, true}
				}
			}
		}
		c.unsupportedf(token.NoPos, "contract: call %s", exprString(x))
		return SV{c.fresh("unk", S64), S64, false}
	}
	name := id.Name
	switch name {
	case "old":
		ost := env.old
		if ost == nil {
			ost = st
		}
		oenv := &CEnv{vars: env.oldV, old: ost, oldV: env.oldV, bound: env.bound, lemma: env.lemma}
		if oenv.vars == nil {
			oenv.vars = env.vars
		}
		return c.ce(ost, x.Args[0], oenv, want)
	case "len", "cap":
		v := c.ce(st, x.Args[0], env, nil)
		if s, ok := v.(*SliceVal); ok {
			if name == "len" {
				return SV{s.Len, S64, true}
			}
			return SV{s.Cap, S64, true}
		}
		c.unsupportedf(token.NoPos, "contract: %s of %T", name, v)
		return SV{c.fresh("unk", S64), S64, true}
	case "implies_":
		return SV{implies(c.ceBool(st, x.Args[0], env), c.ceBool(st, x.Args[1], env)), SBool, false}
	case "forall_", "exists_":
		vn := x.Args[0].(*ast.Ident).Name
		bv := fmt.Sprintf("%s!q%d", sanitize(vn), c.nfresh)
		c.nfresh++
		i64 := SV{"", S64, true}
		allKeys := false
		if id, ok := x.Args[1].(*ast.Ident); ok && id.Name == "allkeys_" {
			allKeys = true
		}
		var lo, hi SV
		if !allKeys {
			lo = c.mat(c.ce(st, x.Args[1], env, &i64), &i64).(SV)
			hi = c.mat(c.ce(st, x.Args[2], env, &i64), &i64).(SV)
		}
		nenv := *env
		nenv.bound = map[string]Val{}
		for k, v := range env.bound {
			nenv.bound[k] = v
		}
		nenv.bound[vn] = SV{bv, S64, !allKeys}
		body := c.ceBool(st, x.Args[3], &nenv)
		rng := "true"
		if !allKeys {
			rng = and(app("bvsle", lo.T, bv), app("bvslt", bv, hi.T))
		}
		if name == "forall_" {
			return SV{fmt.Sprintf("(forall ((%s (_ BitVec 64))) %s)", bv, implies(rng, body)), SBool, false}
		}
		return SV{fmt.Sprintf("(exists ((%s (_ BitVec 64))) %s)", bv, and(rng, body)), SBool, false}
	case "sortedRange", "allLess":
		// sortedRange(e, lo, hi): forall i, j: lo <= i < j < hi ==> e[i] < e[j]        (one quantifier, multi-pattern)
		// allLess(e, lo, hi, f, lo2, hi2): forall i in lo..hi, j in lo2..hi2: e[i] < f[j]
		i64 := SV{"", S64, true}
		ev := func(k int) string { return c.mat(c.ce(st, x.Args[k], env, &i64), &i64).(SV).T }
		e1, ok1 := c.ce(st, x.Args[0], env, nil).(*SliceVal)
		e2 := e1
		ok2 := true
		if name == "allLess" {
			e2, ok2 = c.ce(st, x.Args[3], env, nil).(*SliceVal)
		}
		if !ok1 || !ok2 {
			c.unsupportedf(token.NoPos, "contract: %s of a non-slice", name)
			return SV{"true", SBool, false}
		}
		qi := fmt.Sprintf("qi!%d", c.nfresh)
		qj := fmt.Sprintf("qj!%d", c.nfresh+1)
		c.nfresh += 2
		a, okA := c.elemAt(e1, qi, "ce").(SV)
		b, okB := c.elemAt(e2, qj, "ce").(SV)
		if !okA || !okB {
			c.unsupportedf(token.NoPos, "contract: %s needs scalar elements", name)
			return SV{"true", SBool, false}
		}
		var rng string
		if name == "sortedRange" {
			rng = and(app("bvsle", ev(1), qi), app("bvslt", qi, qj), app("bvslt", qj, ev(2)))
		} else {
			rng = and(app("bvsle", ev(1), qi), app("bvslt", qi, ev(2)), app("bvsle", ev(4), qj), app("bvslt", qj, ev(5)))
		}
		return SV{fmt.Sprintf("(forall ((%s (_ BitVec 64)) (%s (_ BitVec 64))) (! %s :pattern (%s %s)))", qi, qj, implies(rng, app("bvult", a.T, b.T)), a.T, b.T), SBool, false}
	case "each_":
		vn := x.Args[0].(*ast.Ident).Name
		lo, ok1 := x.Args[1].(*ast.BasicLit)
		hi, ok2 := x.Args[2].(*ast.BasicLit)
		if !ok1 || !ok2 {
			c.unsupportedf(token.NoPos, "each: bounds must be integer literals")
			return SV{"true", SBool, false}
		}
		var cs []string
		for k := atoi(lo.Value); k < atoi(hi.Value); k++ {
			nenv := *env
			nenv.bound = map[string]Val{}
			for kk, v := range env.bound {
				nenv.bound[kk] = v
			}
			nenv.bound[vn] = UConst{big.NewInt(int64(k))}
			cs = append(cs, c.ceBool(st, x.Args[3], &nenv))
		}
		return SV{and(cs...), SBool, false}
	case "ite":
		cnd := c.ceBool(st, x.Args[0], env)
		a := c.ce(st, x.Args[1], env, want)
		var b Val
		if as, ok := a.(SV); ok {
			b = c.mat(c.ce(st, x.Args[2], env, &as), &as)
		} else {
			b = c.ce(st, x.Args[2], env, want)
			if bs, ok := b.(SV); ok {
				a = c.mat(a, &bs)
			}
		}
		as, ok1 := a.(SV)
		bs, ok2 := b.(SV)
		if ok1 && ok2 && as.S.Eq(bs.S) {
			return SV{ite(cnd, as.T, bs.T), as.S, as.Signed}
		}
	}
	if cw, ok := convWidths[name]; ok && len(x.Args) == 1 {
		tgt := SV{"", BV(cw.w), cw.sg}
		v := c.ce(st, x.Args[0], env, nil)
		v = c.mat(v, &tgt)
		s, ok := v.(SV)
		if ok && s.S.K == KBV {
			return SV{resize(s.T, s.S.W, cw.w, s.Signed), BV(cw.w), cw.sg}
		}
		c.unsupportedf(token.NoPos, "contract: conversion of %T", v)
		return SV{c.fresh("unk", BV(cw.w)), BV(cw.w), cw.sg}
	}
	// spec function from the prelude
	if sig, ok := c.prog.Sigs[name]; ok {
		if len(sig.Args) != len(x.Args) {
			c.unsupportedf(token.NoPos, "contract: %s expects %d arguments", name, len(sig.Args))
			return SV{c.fresh("unk", sig.Res), sig.Res, false}
		}
		var ts []string
		for i, a := range x.Args {
			w := SV{"", sig.Args[i], false}
			v := c.mat(c.ce(st, a, env, &w), &w)
			s, ok := v.(SV)
			if !ok || !s.S.Eq(sig.Args[i]) {
				got := "?"
				if ok {
					got = s.S.String()
				}
				c.unsupportedf(token.NoPos, "contract: argument %d of %s has sort %s, want %s (%s)", i+1, name, got, sig.Args[i], exprString(x))
				return SV{c.fresh("unk", sig.Res), sig.Res, false}
			}
			ts = append(ts, s.T)
		}
		if len(ts) == 0 {
			return SV{name, sig.Res, false}
		}
		return SV{app(name, ts...), sig.Res, false}
	}
	// a function of the repository, by contract (lemmas)
	if env.lemma {
		if ct := c.prog.Contracts.ByKey[name]; ct != nil {
			var args []Val
			fd := c.prog.Funcs[name]
			var ptypes []types.Type
			if fd != nil {
				if fobj, ok := c.prog.Info.Defs[fd.Name].(*types.Func); ok {
					sig := fobj.Type().(*types.Signature)
					for i := 0; i < sig.Params().Len(); i++ {
						ptypes = append(ptypes, sig.Params().At(i).Type())
					}
				}
			}
			for i, a := range x.Args {
				var w *SV
				if i < len(ptypes) {
					if s, sg, ok := c.scalarSort(ptypes[i]); ok {
						w = &SV{"", s, sg}
					}
				}
				args = append(args, c.mat(c.ce(st, a, env, w), w))
			}
			res := c.applyContract(st, ct, name, args, nil, x.Pos())
			if len(res) >= 1 {
				return res[0]
			}
		}
	}
	c.unsupportedf(token.NoPos, "contract: unknown function %s", name)
	return SV{c.fresh("unk", S64), S64, false}
}

func atoi(s string) int { n, _ := strconv.Atoi(s); return n }
