#!/usr/bin/env python3
"""seed_batch.py <seed-root> : for every <seed-root>/seed_Cxx/{A,B} confirm the change (confirm_seed.sh) and run the
related quick checks against a scratch copy with the patch applied (eval_patch.sh). Appends JSON lines to <seed-root>/eval.jsonl."""
import json, os, subprocess, sys, glob
REL = {"C01": ["C01", "C05", "C06", "C16"], "C02": ["C02", "C14", "C03"], "C03": ["C03", "C04", "C05"], "C04": ["C04", "C03"],
       "C05": ["C05", "C01", "C03"], "C06": ["C06", "C10", "C01"], "C07": ["C07", "C11", "C08"], "C08": ["C08", "C07"],
       "C09": ["C09", "C10"], "C10": ["C10", "C06", "C09"], "C11": ["C11", "C07"], "C12": ["C12"], "C13": ["C13", "C10"],
       "C14": ["C14", "C02"], "C15": ["C15"], "C16": ["C16", "C01", "C02"], "C17": ["C17", "C06"]}
root = sys.argv[1]
donef = os.path.join(root, "eval.jsonl")
done = set()
if os.path.exists(donef):
    for l in open(donef):
        done.add(json.loads(l)["seed"])
for d in sorted(glob.glob(os.path.join(root, "seed_*C[0-9][0-9]", "[AB]"))):
    if not os.path.exists(os.path.join(d, "patch.diff")) or not os.path.exists(os.path.join(d, "demo_test.go")):
        continue
    base = os.path.basename(os.path.dirname(d)).replace("seed_", "")
    pid = base[-3:]
    name = base + "/" + os.path.basename(d)
    if name in done or (len(sys.argv) > 2 and pid not in sys.argv[2:]):
        continue
    c = subprocess.run(["/verif/selftest/confirm_seed.sh", d], stdout=subprocess.PIPE, stderr=subprocess.STDOUT, text=True).stdout
    conf = [l for l in c.splitlines() if l.startswith("RESULT")]
    e = subprocess.run(["/verif/selftest/eval_patch.sh", os.path.join(d, "patch.diff"), "/tmp/seedout/" + name.replace("/", "_")] + REL[pid],
                       stdout=subprocess.PIPE, stderr=subprocess.STDOUT, text=True).stdout
    rec = {"seed": name, "confirm": conf[0] if conf else c[-300:], "checks": [l for l in e.splitlines() if l.strip()]}
    with open(donef, "a") as fh:
        fh.write(json.dumps(rec) + "\n")
    print(name, rec["confirm"], flush=True)
    for l in rec["checks"]:
        print("    ", l[:220], flush=True)
