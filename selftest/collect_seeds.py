#!/usr/bin/env python3
"""collect_seeds.py <seed-root> : copies every confirmed seed <seed-root>/seed_Cxx/{A,B} to /verif/seeded/Cxx-{A,B}/
(patch.diff, the demonstration, the author's notes) and writes meta.json from <seed-root>/eval.jsonl."""
import json, os, shutil, sys, re
root = sys.argv[1]
ev = {}
for l in open(os.path.join(root, "eval.jsonl")):
    r = json.loads(l)
    ev[r["seed"]] = r
table = []
for name, r in sorted(ev.items()):
    base, x = name.split("/")
    pid = base[-3:]
    src = os.path.join(root, "seed_" + base, x)
    if "demo_on_original=pass" not in r["confirm"] or "suite_with_change=pass" not in r["confirm"] or "fail-as-expected" not in r["confirm"]:
        print("NOT CONFIRMED, skipped:", name, r["confirm"])
        continue
    dst = "/verif/seeded/%s-%s" % (base.replace("_", "-"), x)
    os.makedirs(dst, exist_ok=True)
    shutil.copy(os.path.join(src, "patch.diff"), os.path.join(dst, "patch.diff"))
    shutil.copy(os.path.join(src, "demo_test.go"), os.path.join(dst, "demo_test.go.txt"))
    notes = open(os.path.join(src, "notes.md")).read() if os.path.exists(os.path.join(src, "notes.md")) else ""
    open(os.path.join(dst, "notes.md"), "w").write(notes)
    caught, silent = [], []
    for c in r["checks"]:
        m = re.match(r"\s*(C\d+) rc=(\d+) violations=(\d+) :: ?(.*)", c)
        if not m:
            continue
        if m.group(2) == "1" and int(m.group(3)) > 0:
            caught.append({"check": m.group(1), "first_violation": m.group(4).strip()})
        else:
            silent.append(m.group(1) + (" (rc=%s)" % m.group(2) if m.group(2) != "0" else ""))
    files = sorted(set(re.findall(r"^\+\+\+ b/(\S+)", open(os.path.join(src, "patch.diff")).read(), re.M)))
    needs = ""
    for line in notes.splitlines():
        if re.search(r"(?i)trigger|manifest|needs|need ", line):
            needs += line.strip(" -*") + " "
    meta = {
        "property_broken": pid,
        "written_by": "independent sub-agent given only the text of the property and a scratch worktree (nothing from /verif)",
        "files_touched": files,
        "needs_to_manifest": needs.strip()[:900] or "see notes.md",
        "confirmed_by_me": {"how": "selftest/confirm_seed.sh in a scratch copy of /repo HEAD outside /repo and /verif", "result": r["confirm"]},
        "checks_run": "selftest/eval_patch.sh: quick checks against a scratch copy with the patch applied (VERIF_REPO)",
        "caught_by": caught,
        "silent": silent,
        "demonstration": "demo_test.go.txt (rename to *_test.go inside package utreexo; fails with the patch, passes without)",
    }
    json.dump(meta, open(os.path.join(dst, "meta.json"), "w"), indent=1)
    table.append((base.replace("_", "-") + "-" + x, files, [c["check"] + ": " + c["first_violation"].replace("obligation ", "")[:70] for c in caught], silent))
with open(sys.argv[2] if len(sys.argv) > 2 else "/verif/seeded/TABLE.md", "w") as fh:
    fh.write("| seeded change | files | caught by (first failed obligation / clause) | silent |\n|---|---|---|---|\n")
    for n, f, c, s in table:
        fh.write("| %s | %s | %s | %s |\n" % (n, ", ".join(f), "<br>".join(c) or "**missed**", ", ".join(s)))
print(len(table), "seeds collected")
