#!/usr/bin/env python3
"""reeval_seeded.py [-j N] [-only ID ...] : re-evaluates every kept seeded change /verif/seeded/<id>/ against /repo's HEAD:
confirm_seed.sh (demo passes on HEAD, patch applies + builds + suite passes, demo fails with it) and eval_patch.sh with the
related quick checks, all in scratch copies outside /repo and /verif.  Updates meta.json (caught_by / silent / confirmation)
and rewrites seeded/TABLE.md.  VERIF_HOME selects the copy of /verif whose checks are run (default /verif)."""
import json, os, re, shutil, subprocess, sys, tempfile
from concurrent.futures import ThreadPoolExecutor

HOME = os.environ.get("VERIF_HOME", "/verif")
SEEDED = "/verif/seeded"
REL = {"C01": ["C01", "C05", "C06", "C16"], "C02": ["C02", "C14", "C03", "C09"], "C03": ["C03", "C04", "C05"], "C04": ["C04", "C03"],
       "C05": ["C05", "C01", "C03"], "C06": ["C06", "C10", "C01", "C09"], "C07": ["C07", "C11", "C08"], "C08": ["C08", "C07"],
       "C09": ["C09", "C10"], "C10": ["C10", "C06", "C09", "C13"], "C11": ["C11", "C07"], "C12": ["C12"], "C13": ["C13", "C10"],
       "C14": ["C14", "C02"], "C15": ["C15"], "C16": ["C16", "C01", "C02"], "C17": ["C17", "C06", "C07"]}


def one(sid):
    d = os.path.join(SEEDED, sid)
    pid = re.search(r"C\d\d", sid).group(0)
    tmp = tempfile.mkdtemp(prefix="reeval.")
    try:
        shutil.copy(os.path.join(d, "patch.diff"), os.path.join(tmp, "patch.diff"))
        shutil.copy(os.path.join(d, "demo_test.go.txt"), os.path.join(tmp, "demo_test.go"))
        c = subprocess.run([os.path.join(HOME, "selftest/confirm_seed.sh"), tmp], stdout=subprocess.PIPE, stderr=subprocess.STDOUT, text=True).stdout
        conf = ([l for l in c.splitlines() if l.startswith("RESULT")] or [c[-300:]])[0]
        out = tempfile.mkdtemp(prefix="reevalout.")
        e = subprocess.run([os.path.join(HOME, "selftest/eval_patch.sh"), os.path.join(tmp, "patch.diff"), out] + REL[pid],
                           stdout=subprocess.PIPE, stderr=subprocess.STDOUT, text=True, env=dict(os.environ, VERIF_HOME=HOME)).stdout
        shutil.rmtree(out, ignore_errors=True)
    finally:
        shutil.rmtree(tmp, ignore_errors=True)
    caught, silent = [], []
    for l in e.splitlines():
        m = re.match(r"\s*(C\d+) rc=(\d+) violations=(\d+) :: ?(.*)", l)
        if not m:
            continue
        if m.group(2) == "1" and int(m.group(3)) > 0:
            caught.append({"check": m.group(1), "first_violation": m.group(4).strip()})
        else:
            silent.append(m.group(1) + (" (rc=%s)" % m.group(2) if m.group(2) != "0" else ""))
    mp = os.path.join(d, "meta.json")
    meta = json.load(open(mp)) if os.path.exists(mp) else {}
    patch = open(os.path.join(d, "patch.diff")).read()
    notes = open(os.path.join(d, "notes.md")).read() if os.path.exists(os.path.join(d, "notes.md")) else ""
    needs = ""
    for line in notes.splitlines():
        if re.search(r"(?i)trigger|manifest|needs|need ", line):
            needs += line.strip(" -*") + " "
    meta.setdefault("property_broken", pid)
    meta.setdefault("written_by", "independent sub-agent given only the text of the property and a scratch worktree (nothing from /verif)")
    meta["files_touched"] = sorted(set(re.findall(r"^\+\+\+ b/(\S+)", patch, re.M)))
    meta.setdefault("needs_to_manifest", needs.strip()[:900] or "see notes.md")
    meta["confirmed_by_me"] = {"how": "selftest/confirm_seed.sh in a scratch copy of /repo HEAD outside /repo and /verif", "result": conf}
    meta["checks_run"] = "selftest/eval_patch.sh: quick checks against a scratch copy with the patch applied (VERIF_REPO)"
    meta["caught_by"], meta["silent"] = caught, silent
    meta["evaluated_at_repo_commit"] = subprocess.run(["git", "-C", "/repo", "rev-parse", "--short", "HEAD"], stdout=subprocess.PIPE, text=True).stdout.strip()
    meta.setdefault("demonstration", "demo_test.go.txt (rename to *_test.go inside package utreexo; fails with the patch, passes without)")
    json.dump(meta, open(mp, "w"), indent=1)
    ok = "demo_on_original=pass" in conf and "suite_with_change=pass" in conf and "fail-as-expected" in conf
    print("%-12s confirmed=%s caught=%s silent=%s%s" % (sid, ok, [c["check"] for c in caught], silent, "" if ok else "  " + conf[:160]), flush=True)
    return sid


def table():
    rows = []
    for sid in sorted(os.listdir(SEEDED)):
        mp = os.path.join(SEEDED, sid, "meta.json")
        if not os.path.exists(mp):
            continue
        m = json.load(open(mp))
        rows.append((sid, m.get("files_touched", []), [c["check"] + ": " + c["first_violation"].replace("obligation ", "")[:70] for c in m.get("caught_by", [])], m.get("silent", [])))
    with open(os.path.join(SEEDED, "TABLE.md"), "w") as fh:
        fh.write("| seeded change | files | caught by (first failed obligation / clause) | silent |\n|---|---|---|---|\n")
        for n, f, c, s in rows:
            fh.write("| %s | %s | %s | %s |\n" % (n, ", ".join(f), "<br>".join(c) or "**missed**", ", ".join(s)))
    return len(rows)


def main():
    args = sys.argv[1:]
    j = 4
    if args[:1] == ["-j"]:
        j = int(args[1]); args = args[2:]
    only = args[1:] if args[:1] == ["-only"] else None
    ids = [s for s in sorted(os.listdir(SEEDED)) if os.path.exists(os.path.join(SEEDED, s, "patch.diff")) and (not only or s in only)]
    with ThreadPoolExecutor(j) as ex:
        list(ex.map(one, ids))
    print(table(), "seeded changes in TABLE.md")


if __name__ == "__main__":
    main()
