#!/usr/bin/env python3
"""Selftest of the machinery: every mutant (a deliberate property-breaking change that keeps the 247
tests green) must make at least one of its expected checks report a VIOLATION; every benign edit (rename,
reorder, equivalent rewrite) must leave its checks silent.  Patches are applied to scratch copies outside
/repo and /verif (removed afterwards).  Run on every engine change; not part of the registered commands."""
import json, os, subprocess, sys
V = "/verif/selftest"
ok = True
only = sys.argv[1:]
for kind in ("mutants", "benign"):
    for e in json.load(open(os.path.join(V, kind, "index.json"))):
        if only and e["name"] not in only:
            continue
        out = "/tmp/selftest_out/%s" % e["name"]
        p = subprocess.run([os.path.join(V, "eval_patch.sh"), os.path.join(V, kind, e["name"] + ".diff"), out] + e["expect"],
                           stdout=subprocess.PIPE, stderr=subprocess.STDOUT, text=True)
        lines = [l for l in p.stdout.splitlines() if l.strip()]
        hits = [l for l in lines if " violations=" in l and not l.split("violations=")[1].startswith("0 ")]
        infra = [l for l in lines if "rc=2" in l or "DOES NOT APPLY" in l]
        if kind == "mutants":
            good = len(hits) > 0 and not infra
        else:
            good = len(hits) == 0 and not infra
        ok = ok and good
        print("%s %-7s %-34s %s" % ("PASS" if good else "FAIL", kind, e["name"], " | ".join(lines)[:300]), flush=True)
subprocess.run(["rm", "-rf", "/tmp/selftest_out"])
sys.exit(0 if ok else 1)
