#!/bin/sh
# confirm_seed.sh <dir with patch.diff and demo_test.go>
# Confirms, in a scratch copy of /repo's HEAD outside /repo and /verif: the demo passes on the original tree,
# the patch applies and compiles, the existing suite still passes with it, and the demo fails with it.
set -u
D="$1"
SCR=$(mktemp -d /tmp/confirm.XXXXXX)
export GOFLAGS=-mod=mod GOPROXY=off GOSUMDB=off GOTOOLCHAIN=local
git -C /repo archive ${SEED_BASE:-HEAD} | tar -x -C "$SCR"
rm -f "$SCR/verif_contracts.go"
cp "$D/demo_test.go" "$SCR/zz_seeded_demo_test.go"
cd "$SCR"
go test -count=1 -vet=off -run 'TestSeeded' . > "$SCR/orig.log" 2>&1; o=$?
rm -f zz_seeded_demo_test.go
if ! (git apply --whitespace=nowarn "$D/patch.diff" 2> "$SCR/apply.log" || patch -p1 -F3 -s --no-backup-if-mismatch < "$D/patch.diff" >> "$SCR/apply.log" 2>&1); then echo "RESULT apply=FAIL $(head -2 $SCR/apply.log | tr '\n' ' ')"; cd /; rm -rf "$SCR"; exit 1; fi
go build ./... > "$SCR/build.log" 2>&1; b=$?
go test -count=1 -vet=off ./... > "$SCR/suite.log" 2>&1; s=$?
cp "$D/demo_test.go" "$SCR/zz_seeded_demo_test.go"
go test -count=1 -vet=off -run 'TestSeeded' . > "$SCR/demo.log" 2>&1; d=$?
echo "RESULT demo_on_original=$([ $o -eq 0 ] && echo pass || echo FAIL) build=$([ $b -eq 0 ] && echo ok || echo FAIL) suite_with_change=$([ $s -eq 0 ] && echo pass || echo FAIL) demo_with_change=$([ $d -ne 0 ] && echo fail-as-expected || echo PASSES)"
[ $d -ne 0 ] && grep -m2 -E "^\s+\S+_test.go:[0-9]+:|panic:|DATA RACE" "$SCR/demo.log" | cut -c1-200
cd /; rm -rf "$SCR"
