#!/usr/bin/env python3
"""prescribed_run.py [ID ...] : runs the target property's quick check against each kept seeded change the prescribed way:
    git -C /repo apply <patch> ; ./check <property> quick ; git -C /repo checkout -- .
/repo must be clean before; it is restored after every change (also on failure).  Evidence of these runs goes to a scratch
directory (VERIF_OUT_DIR), never to /verif/evidence.  Records the outcome in seeded/<id>/meta.json ("prescribed_run")."""
import json, os, re, shutil, subprocess, sys, tempfile

SEEDED = "/verif/seeded"


def sh(*a, **kw):
    return subprocess.run(list(a), stdout=subprocess.PIPE, stderr=subprocess.STDOUT, text=True, **kw)


def clean():
    return sh("git", "-C", "/repo", "status", "--porcelain").stdout.strip() == ""


def main():
    ids = sys.argv[1:] or sorted(os.listdir(SEEDED))
    if not clean():
        print("/repo is not clean; refusing to run")
        return 2
    for sid in ids:
        d = os.path.join(SEEDED, sid)
        patch = os.path.join(d, "patch.diff")
        if not os.path.exists(patch):
            continue
        pid = re.search(r"C\d\d", sid).group(0)
        out = tempfile.mkdtemp(prefix="prescribed.")
        res = ""
        try:
            a = sh("git", "-C", "/repo", "apply", "--whitespace=nowarn", patch)
            if a.returncode != 0:
                a = sh("patch", "-p1", "-F3", "-s", "--no-backup-if-mismatch", "-d", "/repo", "-i", patch)
            if a.returncode != 0:
                res = "%s check=%s patch does not apply to HEAD" % (sid, pid)
            else:
                c = sh("/verif/check", pid, "quick", env=dict(os.environ, VERIF_OUT_DIR=out))
                nv = len([l for l in c.stdout.splitlines() if l.startswith("VIOLATION")])
                res = "%s check=%s rc=%d violations=%d" % (sid, pid, c.returncode, nv)
        finally:
            sh("git", "-C", "/repo", "checkout", "--", ".")
            sh("git", "-C", "/repo", "clean", "-fdq", "--", "*.orig", "*.rej")
            shutil.rmtree(out, ignore_errors=True)
        res += " repo_clean=%d" % (1 if clean() else 0)
        print(res, flush=True)
        mp = os.path.join(d, "meta.json")
        if os.path.exists(mp):
            m = json.load(open(mp))
            m["prescribed_run"] = {"how": "git -C /repo apply patch.diff ; ./check <id> quick ; git -C /repo checkout -- .", "result": res,
                                   "repo_commit": sh("git", "-C", "/repo", "rev-parse", "--short", "HEAD").stdout.strip()}
            json.dump(m, open(mp, "w"), indent=1)
        if not clean():
            print("/repo left dirty - stopping")
            return 2
    return 0


if __name__ == "__main__":
    sys.exit(main())
