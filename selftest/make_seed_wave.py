#!/usr/bin/env python3
"""make_seed_wave.py <wave.json> : creates, for every entry {"id": "w6a", "property": "C01", "constraint": "..."} a scratch
git worktree /tmp/wt_<id> of /repo's HEAD (verif_contracts.go removed) and /tmp/seed_<id>_<property>/PROMPT.txt from
selftest/seed_prompt_template.txt.  The sub-agent gets only that prompt: the text of the property and its worktree."""
import json, os, subprocess, sys
props = {}
for l in open('/verif/properties.jsonl'):
    d = json.loads(l); props[d['id']] = d
t = open('/verif/selftest/seed_prompt_template.txt').read()
for e in json.load(open(sys.argv[1])):
    w, pid = e['id'], e['property']
    d = props[pid]
    wt, sd = '/tmp/wt_' + w, '/tmp/seed_%s_%s' % (w, pid)
    subprocess.run(['git', '-C', '/repo', 'worktree', 'add', '--detach', wt, 'HEAD'], stdout=subprocess.DEVNULL, stderr=subprocess.DEVNULL, check=True)
    os.remove(wt + '/verif_contracts.go')
    os.makedirs(sd + '/A', exist_ok=True); os.makedirs(sd + '/B', exist_ok=True)
    body = (t.replace('@WT@', wt).replace('@SD@', sd).replace('@PID@', pid).replace('@TITLE@', d['title'])
             .replace('@STATEMENT@', d['statement']).replace('@QUANT@', d['quantifier']['text']).replace('@CONSTRAINT@', e['constraint']))
    open(sd + '/PROMPT.txt', 'w').write(body)
    print(sd + '/PROMPT.txt')
