#!/bin/sh
# eval_patch.sh <patch.diff> <out-dir> <property-id>...
# Applies the patch to a scratch copy of /repo's HEAD (outside /repo and /verif), runs the given quick checks
# against that copy (VERIF_REPO), prints one line per check, removes the copy.  /repo is never touched.
set -u
PATCH="$1"; OUT="$2"; shift 2
SCR=$(mktemp -d /tmp/evalrepo.XXXXXX)
git -C /repo archive ${SEED_BASE:-HEAD} | tar -x -C "$SCR"
applied=no
if (cd "$SCR" && git init -q . && git apply --whitespace=nowarn "$PATCH" 2>/dev/null); then applied=yes
elif (cd "$SCR" && patch -p1 -F3 -s --no-backup-if-mismatch < "$PATCH" >/dev/null 2>&1); then applied=yes; fi
if [ "$applied" = no ]; then echo "PATCH DOES NOT APPLY: $PATCH"; rm -rf "$SCR"; exit 2; fi
if ! (cd "$SCR" && GOFLAGS=-mod=mod GOPROXY=off GOSUMDB=off go build ./... >/dev/null 2>&1); then echo "PATCHED TREE DOES NOT BUILD: $PATCH"; rm -rf "$SCR"; exit 2; fi
mkdir -p "$OUT"
for P in "$@"; do
  VERIF_REPO="$SCR" VERIF_OUT_DIR="$OUT" ${VERIF_HOME:-/verif}/check "$P" quick > "$OUT/$P.log" 2>&1
  rc=$?
  n=$(grep -c '^VIOLATION' "$OUT/$P.log")
  first=$(grep -A1 '^VIOLATION' "$OUT/$P.log" | sed -n 2p | cut -c1-160)
  echo "$P rc=$rc violations=$n :: $first"
done
rm -rf "$SCR"
