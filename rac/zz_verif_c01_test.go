//go:build verif

package utreexo

import (
	"fmt"
	"math/rand"
	"testing"
)

func racMapCfgs(thorough bool) []mapCfg {
	cfgs := []mapCfg{{Full: true, TotalRows: 63}, {Full: true, TotalRows: 0}, {Full: true, TotalRows: 3}, {Full: false, TotalRows: 63}, {Full: false, TotalRows: 0}}
	if thorough {
		for _, r := range []uint8{1, 2, 5, 8, 50} {
			cfgs = append(cfgs, mapCfg{Full: true, TotalRows: r})
		}
		for _, r := range []uint8{1, 3, 50} {
			cfgs = append(cfgs, mapCfg{Full: false, TotalRows: r})
		}
	}
	return cfgs
}

// applyAll applies one block to every implementation and to the spec; reports contract failures.
// Contract (C01):  rac ensures roots(x') == specForest(Apply(A, dels, adds)).Roots && NumLeaves' == n'
func (w *racWorld) applyAll(res *racResult, h racHistory, k int, checkRoots bool) bool {
	b := h[k]
	bd, err := w.prepare(b)
	if err != nil {
		res.fail("harness.prepare", h.String(), err.Error(), "spec can build the block")
		return false
	}
	in := map[string]interface{}{"history": h.String(), "block": k}
	ok := true
	// --- Stump.Update
	{
		sn := snap([][]Hash{bd.delHashes, bd.adds, bd.proof.Proof}, [][]uint64{bd.proof.Targets})
		var uerr error
		p := safely(func() { _, uerr = w.stump.Update(bd.delHashes, bd.adds, bd.proof) })
		res.eval("Stump.Update.rac.accepts")
		if p != "" || uerr != nil {
			res.fail("Stump.Update.rac.accepts", in, fmt.Sprintf("panic=%q err=%v", p, uerr), "canonical spec proof of live leaves is accepted")
			ok = false
		}
		res.eval("C17.preserves.Stump.Update")
		if !sn.unchanged() {
			res.fail("C17.preserves.Stump.Update", in, "argument slices modified", "unchanged")
		}
	}
	// --- Pollard.Modify
	{
		sn := snap([][]Hash{bd.delHashes, bd.proof.Proof}, [][]uint64{bd.proof.Targets})
		// the pointer forest is full, so the Remember flags the caller sets are irrelevant to it; alternate them so
		// that a write to either value of the flag in the caller's slice is visible
		pl := make([]Leaf, len(bd.leaves))
		for j, l := range bd.leaves {
			pl[j] = Leaf{Hash: l.Hash, Remember: (w.spec.n+uint64(j))%2 == 0}
		}
		lv := cloneLeaves(pl)
		var merr error
		p := safely(func() { merr = w.pol.Modify(pl, bd.delHashes, bd.proof) })
		res.eval("Pollard.Modify.rac.accepts")
		if p != "" || merr != nil {
			res.fail("Pollard.Modify.rac.accepts", in, fmt.Sprintf("panic=%q err=%v", p, merr), "block applied")
			ok = false
		}
		res.eval("C17.preserves.Pollard.Modify")
		if !sn.unchanged() || fmt.Sprint(lv) != fmt.Sprint(pl) {
			res.fail("C17.preserves.Pollard.Modify", in, "argument slices modified", "unchanged")
		}
	}
	// --- MapPollard.Modify
	for i, m := range w.maps {
		sn := snap([][]Hash{bd.delHashes, bd.proof.Proof}, [][]uint64{bd.proof.Targets})
		var merr error
		leaves := bd.leaves
		if w.cfgs[i].NoRemember || w.cfgs[i].RememberEven {
			leaves = make([]Leaf, len(bd.leaves))
			for j, l := range bd.leaves {
				leaves[j] = Leaf{Hash: l.Hash, Remember: w.cfgs[i].RememberEven && (w.spec.n+uint64(j))%2 == 0}
			}
			if len(bd.delHashes) > 0 {
				var verr error
				pv := safely(func() { verr = m.Verify(bd.delHashes, bd.proof, true) })
				res.eval("MapPollard.Verify.rac.accepts-canonical")
				if pv != "" || verr != nil {
					res.fail("MapPollard.Verify.rac.accepts-canonical", map[string]interface{}{"history": h.String(), "block": k, "config": w.cfgs[i].String()}, fmt.Sprintf("panic=%q err=%v", pv, verr), "accepted")
					ok = false
					continue
				}
			}
		}
		mlv := cloneLeaves(leaves)
		p := safely(func() { merr = m.Modify(leaves, bd.delHashes, bd.proof) })
		cl := "MapPollard.Modify.rac.accepts"
		res.eval(cl)
		if p != "" || merr != nil {
			res.fail(cl, map[string]interface{}{"history": h.String(), "block": k, "config": w.cfgs[i].String()}, fmt.Sprintf("panic=%q err=%v", p, merr), "block applied")
			ok = false
		}
		res.eval("C17.preserves.MapPollard.Modify")
		if !sn.unchanged() || fmt.Sprint(mlv) != fmt.Sprint(leaves) {
			res.fail("C17.preserves.MapPollard.Modify", in, "argument slices modified", "unchanged")
		}
	}
	w.spec.Apply(bd.delHashes, bd.adds)
	if !checkRoots {
		return ok
	}
	want := w.spec.Roots()
	check := func(clause, impl string, roots []Hash, n uint64) {
		res.eval(clause)
		if !hashesEq(roots, want) || n != w.spec.n {
			res.fail(clause, map[string]interface{}{"history": h.String(), "block": k, "impl": impl},
				fmt.Sprintf("numLeaves=%d roots=%s", n, shortHashes(roots)), fmt.Sprintf("numLeaves=%d roots=%s", w.spec.n, shortHashes(want)))
			ok = false
		}
	}
	check("Stump.Update.rac.roots", "stump", w.stump.Roots, w.stump.NumLeaves)
	check("Pollard.Modify.rac.roots", "pollard", w.pol.GetRoots(), w.pol.GetNumLeaves())
	for i, m := range w.maps {
		check("MapPollard.Modify.rac.roots", w.cfgs[i].String(), m.GetRoots(), m.GetNumLeaves())
	}
	return ok
}

// replayHistory builds a fresh world and applies the history; contracts are evaluated for the last
// block only (earlier blocks were evaluated when their prefix was visited) unless all is set.
func replayHistory(res *racResult, h racHistory, cfgs []mapCfg, all bool) (*racWorld, bool) {
	w := newWorld(cfgs)
	for k := range h {
		if !w.applyAll(res, h, k, all || k == len(h)-1) {
			return w, false
		}
	}
	return w, true
}

func TestRAC_C01(t *testing.T) {
	res := newRacResult("C01")
	cfgs := racMapCfgs(res.thorough())
	cfgs = append(cfgs, mapCfg{Full: false, TotalRows: 63, NoRemember: true}, mapCfg{Full: false, TotalRows: 0, NoRemember: true}, mapCfg{Full: false, TotalRows: 3, NoRemember: true})
	maxLeaves, maxBlocks := 6, 3
	if res.thorough() {
		maxLeaves, maxBlocks = 7, 4
	}
	n := 0
	enumHistories(maxLeaves, maxBlocks, func(h racHistory) {
		n++
		w, _ := replayHistory(res, h, cfgs, false)
		res.seen(fmt.Sprintf("n=%d live=%v", w.spec.n, w.spec.liveHashes()))
		if n%997 == 1 {
			res.sample(map[string]interface{}{"history": h.String(), "leaves": w.spec.n, "roots": shortHashes(w.spec.Roots())})
		}
	})
	res.Exhaustive = true
	// seeded long histories (cross powers of two, empty whole trees)
	nr := 20
	if res.thorough() {
		nr = 300
	}
	rng := rand.New(rand.NewSource(res.Seed + 101))
	for i := 0; i < nr; i++ {
		h := randomHistory(rng, 4+rng.Intn(12), 9)
		w, _ := replayHistory(res, h, cfgs, true)
		res.seen(fmt.Sprintf("n=%d live=%v", w.spec.n, w.spec.liveHashes()))
		if i < 2 {
			res.sample(map[string]interface{}{"random_history": h.String(), "leaves": w.spec.n})
		}
	}
	// scale: one tree of 2^17 leaves (17 rows), deletions in both halves of it and next to the row boundaries, then
	// additions and further deletions - code that keeps path bits or row counters in 16 bits shows only here
	{
		big := racHistory{
			{Adds: 1 << 17},
			{Dels: []uint64{0, 1, 65535, 65536, 65537, 98304, 100000, 131071}, Adds: 3},
			{Dels: []uint64{2, 70000, 131070, 131072}, Adds: 1},
		}
		w, _ := replayHistory(res, big, []mapCfg{{Full: true, TotalRows: 0}, {Full: false, TotalRows: 63}}, true)
		res.seen(fmt.Sprintf("scale n=%d", w.spec.n))
		res.sample(map[string]interface{}{"scale_history": "+131072; del 0,1,65535,65536,65537,98304,100000,131071 +3; del 2,70000,131070,131072 +1", "leaves": w.spec.n})
	}
	res.Rule = fmt.Sprintf("every block history from the empty accumulator with <= %d leaves ever added and <= %d blocks (every deletion subset, every addition count; each prefix is a history), plus %d seeded random histories of 4..15 blocks, plus one scale history (a single tree of 2^17 leaves, deletions in both halves, two further blocks; Stump, Pollard, one full and one light MapPollard); implementations: Stump, Pollard, MapPollard %v; oracle: specForest (roots by explicit recursion over insertion slots). distinct = distinct abstract states (leaf count, live set) reached", maxLeaves, maxBlocks, nr, cfgs)
	res.Scope = fmt.Sprintf("histories=%d", n)
	res.write(t)
}
