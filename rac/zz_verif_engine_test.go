//go:build verif

package utreexo

// Runtime-contract tier: bounded input enumeration and result recording (DESIGN 2.6).

import (
	"encoding/json"
	"fmt"
	"math/rand"
	"os"
	"sort"
	"strconv"
	"strings"
	"testing"
)

// ---- results ------------------------------------------------------------------------------------

type racViolation struct {
	Clause   string      `json:"clause"`
	Input    interface{} `json:"input"`
	Observed string      `json:"observed"`
	Expected string      `json:"expected"`
}

type racResult struct {
	Property    string         `json:"property"`
	Tier        string         `json:"tier"`
	Seed        int64          `json:"seed"`
	Evaluations int            `json:"evaluations"`
	Distinct    int            `json:"distinct_nontrivial"`
	Rule        string         `json:"rule"`
	Exhaustive  bool           `json:"exhaustive"`
	Samples     []interface{}  `json:"samples"`
	Violations  []racViolation `json:"violations"`
	PerClause   map[string]int `json:"evaluations_per_clause"`
	Scope       string         `json:"scope"`
	distinct    map[string]bool
	violCount   map[string]int
}

func newRacResult(prop string) *racResult {
	seed, _ := strconv.ParseInt(os.Getenv("VERIF_SEED"), 10, 64)
	tier := os.Getenv("VERIF_TIER")
	if tier == "" {
		tier = "quick"
	}
	return &racResult{Property: prop, Tier: tier, Seed: seed, PerClause: map[string]int{}, distinct: map[string]bool{}, violCount: map[string]int{}}
}

func (r *racResult) thorough() bool { return r.Tier == "thorough" }

// eval counts one contract evaluation.
func (r *racResult) eval(clause string) {
	r.Evaluations++
	r.PerClause[clause]++
}

func (r *racResult) seen(key string) {
	if !r.distinct[key] {
		r.distinct[key] = true
		r.Distinct++
	}
}

func (r *racResult) sample(s interface{}) {
	if len(r.Samples) < 6 {
		r.Samples = append(r.Samples, s)
	}
}

// fail records a violated clause (at most 4 per clause are kept in full).
func (r *racResult) fail(clause string, input interface{}, observed, expected string) {
	r.violCount[clause]++
	if len(observed) > 1200 {
		observed = observed[:1200] + "...(truncated)"
	}
	if len(expected) > 1200 {
		expected = expected[:1200] + "...(truncated)"
	}
	if r.violCount[clause] <= 4 {
		r.Violations = append(r.Violations, racViolation{clause, input, observed, expected})
	}
}

func (r *racResult) write(t *testing.T) {
	out := os.Getenv("VERIF_RAC_OUT")
	if out == "" {
		out = "/dev/stdout"
	}
	data, _ := json.MarshalIndent(r, "", " ")
	if err := os.WriteFile(out, data, 0o644); err != nil {
		t.Fatalf("cannot write %s: %v", out, err)
	}
	for c, n := range r.violCount {
		t.Logf("clause %s violated %d times", c, n)
	}
}

// ---- histories ----------------------------------------------------------------------------------

// block: delete the live leaves with the given insertion slots, then add numAdds new leaves.
type racBlock struct {
	Dels []uint64 `json:"dels"` // insertion slots
	Adds int      `json:"adds"`
}

type racHistory []racBlock

func (h racHistory) String() string {
	var parts []string
	for _, b := range h {
		var ds []string
		for _, d := range b.Dels {
			ds = append(ds, strconv.FormatUint(d, 10))
		}
		parts = append(parts, fmt.Sprintf("d:%s|a:%d", strings.Join(ds, ","), b.Adds))
	}
	return strings.Join(parts, ";")
}

func parseHistory(s string) racHistory {
	var h racHistory
	if s == "" {
		return h
	}
	for _, part := range strings.Split(s, ";") {
		var b racBlock
		f := strings.Split(part, "|")
		ds := strings.TrimPrefix(f[0], "d:")
		if ds != "" {
			for _, d := range strings.Split(ds, ",") {
				v, _ := strconv.ParseUint(d, 10, 64)
				b.Dels = append(b.Dels, v)
			}
		}
		b.Adds, _ = strconv.Atoi(strings.TrimPrefix(f[1], "a:"))
		h = append(h, b)
	}
	return h
}

// enumHistories calls visit for every history (every prefix is visited as its own history) with at
// most maxLeaves leaves ever added and at most maxBlocks blocks; every deletion subset, every
// addition count.  Returns false when the visit budget was exhausted (then not exhaustive).
func enumHistories(maxLeaves, maxBlocks int, visit func(h racHistory)) {
	replay := os.Getenv("VERIF_RAC_REPLAY_HISTORY")
	if replay != "" {
		visit(parseHistory(replay))
		return
	}
	var rec func(h racHistory, n int, live []uint64)
	rec = func(h racHistory, n int, live []uint64) {
		if len(h) > 0 {
			visit(h)
		}
		if len(h) == maxBlocks {
			return
		}
		for mask := 0; mask < (1 << len(live)); mask++ {
			var dels, rest []uint64
			for i, s := range live {
				if mask&(1<<i) != 0 {
					dels = append(dels, s)
				} else {
					rest = append(rest, s)
				}
			}
			for adds := 0; adds <= maxLeaves-n; adds++ {
				if len(dels) == 0 && adds == 0 {
					continue
				}
				nl := append([]uint64{}, rest...)
				for k := 0; k < adds; k++ {
					nl = append(nl, uint64(n+k))
				}
				nh := append(append(racHistory{}, h...), racBlock{dels, adds})
				rec(nh, n+adds, nl)
			}
		}
	}
	rec(nil, 0, nil)
}

// randomHistory: a seeded history of nBlocks blocks with up to maxAdds additions per block that
// crosses powers of two and sometimes empties whole trees.
func randomHistory(rng *rand.Rand, nBlocks, maxAdds int) racHistory {
	var h racHistory
	var live []uint64
	n := 0
	for b := 0; b < nBlocks; b++ {
		var blk racBlock
		mode := rng.Intn(6)
		var rest []uint64
		for _, s := range live {
			del := false
			switch mode {
			case 0:
				del = rng.Intn(2) == 0
			case 1:
				del = rng.Intn(5) == 0
			case 2:
				del = true // everything
			case 3:
				del = s%4 < 2 // sibling pairs / whole subtrees
			case 4:
				del = rng.Intn(10) != 0
			}
			if del {
				blk.Dels = append(blk.Dels, s)
			} else {
				rest = append(rest, s)
			}
		}
		blk.Adds = rng.Intn(maxAdds + 1)
		if rng.Intn(4) == 0 && n > 0 {
			// land exactly on a power of two
			p := 1
			for p <= n {
				p *= 2
			}
			if p-n <= 2*maxAdds {
				blk.Adds = p - n
			}
		}
		for k := 0; k < blk.Adds; k++ {
			rest = append(rest, uint64(n+k))
		}
		n += blk.Adds
		live = rest
		h = append(h, blk)
	}
	return h
}

// emptyRootHistory: n leaves, then a block that empties whole trees (a random non-empty subset of the
// trees, sometimes a few more leaves), then one or two small blocks: empty roots survive, are merged over,
// and sit next to live roots.
func emptyRootHistory(rng *rand.Rand) racHistory {
	n := 2 + rng.Intn(46)
	if rng.Intn(2) == 0 {
		n |= 1 // a lone leaf as the lowest tree: the next addition merges over its (possibly empty) root
	}
	h := racHistory{{Adds: n}}
	var dels []uint64
	base := 0
	first := true
	for row := 6; row >= 0; row-- {
		if n&(1<<uint(row)) == 0 {
			continue
		}
		kill := rng.Intn(5) < 3
		if (first || row == 0) && rng.Intn(3) != 0 {
			kill = true
		}
		first = false
		for i := 0; i < 1<<uint(row); i++ {
			if kill || rng.Intn(12) == 0 {
				dels = append(dels, uint64(base+i))
			}
		}
		base += 1 << uint(row)
	}
	h = append(h, racBlock{Dels: dels, Adds: rng.Intn(2)})
	total := n + h[1].Adds
	live := map[uint64]bool{}
	for i := 0; i < total; i++ {
		live[uint64(i)] = true
	}
	for _, d := range dels {
		delete(live, d)
	}
	for b := 0; b < 1+rng.Intn(2); b++ {
		var blk racBlock
		for s := uint64(0); s < uint64(total); s++ {
			if live[s] && rng.Intn(8) == 0 {
				blk.Dels = append(blk.Dels, s)
				delete(live, s)
			}
		}
		blk.Adds = 1 + rng.Intn(4)
		for k := 0; k < blk.Adds; k++ {
			live[uint64(total+k)] = true
		}
		total += blk.Adds
		h = append(h, blk)
	}
	return h
}

// racLeaf gives the value of the leaf added at an insertion slot; TestRAC_ADV replaces it by adversarial
// assignments (values that share 12-byte prefixes, values equal to hashes of internal nodes).
var racLeaf = specLeaf

// racReuseDeleted: the first leaf a block adds takes the value of the first leaf the same block deletes (that
// value is not live any more when the additions are made, so the added leaves are still distinct live values).
var racReuseDeleted = false

// tagged runs f on a scratch result and merges it into r with tag appended to every clause name.
func (r *racResult) tagged(tag string, f func(tmp *racResult)) {
	if tag == "" {
		f(r)
		return
	}
	tmp := &racResult{Property: r.Property, Tier: r.Tier, Seed: r.Seed, PerClause: map[string]int{}, distinct: map[string]bool{}, violCount: map[string]int{}}
	f(tmp)
	r.Evaluations += tmp.Evaluations
	name := func(c string) string {
		if strings.Contains(c, "/") {
			return c // the clause already names its own input class
		}
		return c + tag
	}
	for k, v := range tmp.PerClause {
		r.PerClause[name(k)] += v
	}
	for _, v := range tmp.Violations {
		r.fail(name(v.Clause), v.Input, v.Observed, v.Expected)
	}
}

// onlyClauses runs f on a scratch result and keeps the evaluations and violations of the clauses with the
// given prefix.
func (r *racResult) onlyClauses(prefix string, f func(tmp *racResult)) {
	tmp := &racResult{Property: r.Property, Tier: r.Tier, Seed: r.Seed, PerClause: map[string]int{}, distinct: map[string]bool{}, violCount: map[string]int{}}
	f(tmp)
	for k, v := range tmp.PerClause {
		if strings.HasPrefix(k, prefix) {
			r.PerClause[k] += v
			r.Evaluations += v
		}
	}
	for _, v := range tmp.Violations {
		if strings.HasPrefix(v.Clause, prefix) {
			r.fail(v.Clause, v.Input, v.Observed, v.Expected)
		}
	}
}

// ---- the world: spec forest + the implementations ------------------------------------------------

type mapCfg struct {
	Full      bool
	TotalRows uint8
	// NoRemember: a light forest that is never told to remember added leaves; every deletion is first
	// verified with remember (which ingests the block proof), then applied.
	NoRemember bool
	// RememberEven: only the leaves with an even insertion slot are remembered (mixed Remember flags).
	RememberEven bool
}

func (c mapCfg) String() string {
	if c.NoRemember {
		return fmt.Sprintf("map(full=%v,rows=%d,remembers-nothing)", c.Full, c.TotalRows)
	}
	if c.RememberEven {
		return fmt.Sprintf("map(full=%v,rows=%d,remembers-even-slots)", c.Full, c.TotalRows)
	}
	return fmt.Sprintf("map(full=%v,rows=%d)", c.Full, c.TotalRows)
}

type racWorld struct {
	spec  *specForest
	stump Stump
	pol   *Pollard
	maps  []*MapPollard
	cfgs  []mapCfg
}

func newWorld(cfgs []mapCfg) *racWorld {
	w := &racWorld{spec: newSpecForest()}
	p := NewAccumulator()
	w.pol = &p
	for _, c := range cfgs {
		m := NewMapPollard(c.Full)
		m.TotalRows = c.TotalRows
		w.maps = append(w.maps, &m)
		w.cfgs = append(w.cfgs, c)
	}
	return w
}

type blockData struct {
	delHashes []Hash
	proof     Proof
	adds      []Hash
	leaves    []Leaf
	prevRoots []Hash
}

// prepare builds the block's data from the abstract state: hashes of the deleted slots, the
// canonical proof (from the SPEC, not from an implementation), the added leaves.
func (w *racWorld) prepare(b racBlock) (blockData, error) {
	var bd blockData
	for _, s := range b.Dels {
		h, ok := w.spec.alive[s]
		if !ok {
			return bd, fmt.Errorf("slot %d is not live", s)
		}
		bd.delHashes = append(bd.delHashes, h)
	}
	pr, err := w.spec.CanonProof(bd.delHashes)
	if err != nil {
		return bd, err
	}
	bd.proof = pr
	for k := 0; k < b.Adds; k++ {
		h := racLeaf(int(w.spec.n) + k)
		if racReuseDeleted && k == 0 && len(bd.delHashes) > 0 {
			h = bd.delHashes[0] // the block re-adds a value it has just deleted
		}
		bd.adds = append(bd.adds, h)
		bd.leaves = append(bd.leaves, Leaf{Hash: h, Remember: true})
	}
	bd.prevRoots = w.spec.Roots()
	return bd, nil
}

func cloneHashes(h []Hash) []Hash   { return append([]Hash(nil), h...) }
func cloneU64(h []uint64) []uint64  { return append([]uint64(nil), h...) }
func cloneLeaves(h []Leaf) []Leaf   { return append([]Leaf(nil), h...) }
func cloneProof(p Proof) Proof      { return Proof{cloneU64(p.Targets), cloneHashes(p.Proof)} }
func hashesEq(a, b []Hash) bool     { return fmt.Sprint(a) == fmt.Sprint(b) }
func u64Eq(a, b []uint64) bool      { return fmt.Sprint(a) == fmt.Sprint(b) }
func shortHashes(hs []Hash) string {
	var s []string
	for _, h := range hs {
		s = append(s, fmt.Sprintf("%x", h[:4]))
	}
	return "[" + strings.Join(s, " ") + "]"
}

// argSnapshot supports the C17 side condition checked around every call of every RAC run:
// the caller's slices are unchanged by the call.
type argSnapshot struct {
	hashes [][]Hash
	u64s   [][]uint64
	hcopy  [][]Hash
	ucopy  [][]uint64
}

func snap(hs [][]Hash, us [][]uint64) *argSnapshot {
	s := &argSnapshot{hashes: hs, u64s: us}
	for _, h := range hs {
		s.hcopy = append(s.hcopy, cloneHashes(h))
	}
	for _, u := range us {
		s.ucopy = append(s.ucopy, cloneU64(u))
	}
	return s
}

func (s *argSnapshot) unchanged() bool {
	for i := range s.hashes {
		if !hashesEq(s.hashes[i], s.hcopy[i]) {
			return false
		}
	}
	for i := range s.u64s {
		if !u64Eq(s.u64s[i], s.ucopy[i]) {
			return false
		}
	}
	return true
}

func sortedU64(a []uint64) []uint64 {
	b := cloneU64(a)
	sort.Slice(b, func(i, j int) bool { return b[i] < b[j] })
	return b
}

// safely runs f and converts a panic into an error string.
func safely(f func()) (panicked string) {
	defer func() {
		if r := recover(); r != nil {
			panicked = fmt.Sprint(r)
		}
	}()
	f()
	return ""
}
