//go:build verif

package utreexo

// Ghost vocabulary of the runtime-contract tier (DESIGN 3.2).  Written from the property
// statements only: explicit recursion over leaf slots, row geometry by the closed form
// start(r) = 2^(h+1) - 2^(h+1-r); no call into utils.go.  The only primitive shared with the
// repository is parentHash (the properties are parametric in the hash function).

import (
	"fmt"
	"sort"
)

// ---- geometry (own closed forms) ------------------------------------------------------------

func specTreeRows(n uint64) uint8 {
	h := uint8(0)
	for (uint64(1) << h) < n {
		h++
	}
	return h
}

func specStart(row, rows uint8) uint64 {
	return (uint64(2) << rows) - (uint64(1) << (rows + 1 - row))
}

func specPos(row uint8, off uint64, rows uint8) uint64 { return specStart(row, rows) + off }

// specRowOff finds the row and offset of a position by comparing against the row starts.
func specRowOff(pos uint64, rows uint8) (uint8, uint64, bool) {
	for r := uint8(0); r <= rows; r++ {
		lo := specStart(r, rows)
		hi := lo + (uint64(1) << (rows - r))
		if pos >= lo && pos < hi {
			return r, pos - lo, true
		}
	}
	return 0, 0, false
}

func specTranslate(pos uint64, from, to uint8) uint64 {
	r, o, ok := specRowOff(pos, from)
	if !ok {
		return pos
	}
	return specPos(r, o, to)
}

// ---- the abstract accumulator ---------------------------------------------------------------

type specForest struct {
	n     uint64          // leaves ever added
	alive map[uint64]Hash // insertion slot -> hash, live leaves only
}

func newSpecForest() *specForest { return &specForest{alive: map[uint64]Hash{}} }

func (f *specForest) clone() *specForest {
	c := &specForest{n: f.n, alive: make(map[uint64]Hash, len(f.alive))}
	for k, v := range f.alive {
		c.alive[k] = v
	}
	return c
}

// cnode: the hash of the subtree covering slots [lo, lo+2^h), if it has survivors.
// "a subtree without survivors contributes nothing, a subtree whose sibling has no survivors
// stands in for its parent".
func (f *specForest) cnode(lo uint64, h uint8) (Hash, bool) {
	if h == 0 {
		v, ok := f.alive[lo]
		return v, ok
	}
	l, lok := f.cnode(lo, h-1)
	r, rok := f.cnode(lo+(uint64(1)<<(h-1)), h-1)
	switch {
	case lok && rok:
		return parentHash(l, r), true
	case lok:
		return l, true
	case rok:
		return r, true
	}
	return Hash{}, false
}

type specTree struct {
	row  uint8  // height of the tree = bit of n
	base uint64 // first slot
}

// trees: "the trees given by the binary digits of the leaf count", largest first.
func (f *specForest) trees() []specTree {
	var ts []specTree
	base := uint64(0)
	for b := 63; b >= 0; b-- {
		if f.n&(uint64(1)<<uint(b)) != 0 {
			ts = append(ts, specTree{uint8(b), base})
			base += uint64(1) << uint(b)
		}
	}
	return ts
}

// Roots: ordered list of root hashes; a tree without survivors has the all-zero root.
func (f *specForest) Roots() []Hash {
	var rs []Hash
	for _, t := range f.trees() {
		h, _ := f.cnode(t.base, t.row)
		rs = append(rs, h)
	}
	return rs
}

// Placed: position -> hash of every node that currently exists, in coordinates of `rows` total rows.
// A subtree that stands in for its parent is placed, as a whole, at the parent's position.
func (f *specForest) Placed(rows uint8) map[uint64]Hash {
	out := map[uint64]Hash{}
	var place func(lo uint64, h uint8, row uint8, off uint64)
	place = func(lo uint64, h uint8, row uint8, off uint64) {
		hash, ok := f.cnode(lo, h)
		if !ok {
			return
		}
		if h == 0 {
			out[specPos(row, off, rows)] = hash
			return
		}
		half := uint64(1) << (h - 1)
		_, lok := f.cnode(lo, h-1)
		_, rok := f.cnode(lo+half, h-1)
		switch {
		case lok && rok:
			out[specPos(row, off, rows)] = hash
			place(lo, h-1, row-1, 2*off)
			place(lo+half, h-1, row-1, 2*off+1)
		case lok:
			place(lo, h-1, row, off)
		case rok:
			place(lo+half, h-1, row, off)
		}
	}
	for _, t := range f.trees() {
		off := t.base >> t.row
		if _, ok := f.cnode(t.base, t.row); !ok {
			out[specPos(t.row, off, rows)] = Hash{} // empty root
			continue
		}
		place(t.base, t.row, t.row, off)
	}
	return out
}

// LeafPositions: hash -> position of every live leaf.
func (f *specForest) LeafPositions(rows uint8) map[Hash]uint64 {
	out := map[Hash]uint64{}
	var place func(lo uint64, h uint8, row uint8, off uint64)
	place = func(lo uint64, h uint8, row uint8, off uint64) {
		if _, ok := f.cnode(lo, h); !ok {
			return
		}
		if h == 0 {
			out[f.alive[lo]] = specPos(row, off, rows)
			return
		}
		half := uint64(1) << (h - 1)
		_, lok := f.cnode(lo, h-1)
		_, rok := f.cnode(lo+half, h-1)
		switch {
		case lok && rok:
			place(lo, h-1, row-1, 2*off)
			place(lo+half, h-1, row-1, 2*off+1)
		case lok:
			place(lo, h-1, row, off)
		case rok:
			place(lo+half, h-1, row, off)
		}
	}
	for _, t := range f.trees() {
		place(t.base, t.row, t.row, t.base>>t.row)
	}
	return out
}

func (f *specForest) rootPositions(rows uint8) map[uint64]bool {
	out := map[uint64]bool{}
	for _, t := range f.trees() {
		out[specPos(t.row, t.base>>t.row, rows)] = true
	}
	return out
}

// pathNodes: the targets and all their ancestors up to (and including) the roots.
func (f *specForest) pathNodes(targets []uint64, rows uint8) map[uint64]bool {
	roots := f.rootPositions(rows)
	p := map[uint64]bool{}
	for _, t := range targets {
		cur := t
		for {
			p[cur] = true
			if roots[cur] {
				break
			}
			r, o, ok := specRowOff(cur, rows)
			if !ok || r >= rows {
				break
			}
			cur = specPos(r+1, o/2, rows)
		}
	}
	return p
}

// CanonProofPositions: "exactly the siblings on the targets' paths that are neither targets nor
// computable", ordered by row then position.
func (f *specForest) CanonProofPositions(targets []uint64, rows uint8) []uint64 {
	roots := f.rootPositions(rows)
	p := f.pathNodes(targets, rows)
	need := map[uint64]bool{}
	for q := range p {
		if roots[q] {
			continue
		}
		sib := q ^ 1
		if !p[sib] {
			need[sib] = true
		}
	}
	var out []uint64
	for q := range need {
		out = append(out, q)
	}
	sort.Slice(out, func(a, b int) bool { return out[a] < out[b] })
	return out
}

// ComputablePositions: the ancestors of the targets (path nodes that are not targets).
func (f *specForest) ComputablePositions(targets []uint64, rows uint8) []uint64 {
	p := f.pathNodes(targets, rows)
	tset := map[uint64]bool{}
	for _, t := range targets {
		tset[t] = true
	}
	var out []uint64
	for q := range p {
		if !tset[q] {
			out = append(out, q)
		}
	}
	sort.Slice(out, func(a, b int) bool { return out[a] < out[b] })
	return out
}

// CanonProof for the given leaf hashes (request order kept in Targets).
func (f *specForest) CanonProof(hashes []Hash) (Proof, error) {
	rows := specTreeRows(f.n)
	lp := f.LeafPositions(rows)
	placed := f.Placed(rows)
	var targets []uint64
	for _, h := range hashes {
		pos, ok := lp[h]
		if !ok {
			return Proof{}, fmt.Errorf("spec: %x is not a live leaf", h[:4])
		}
		targets = append(targets, pos)
	}
	var proof []Hash
	for _, q := range f.CanonProofPositions(targets, rows) {
		hv, ok := placed[q]
		if !ok {
			return Proof{}, fmt.Errorf("spec: proof position %d has no node", q)
		}
		proof = append(proof, hv)
	}
	return Proof{Targets: targets, Proof: proof}, nil
}

// Apply: remove the named leaves, then append the additions at slots n, n+1, ...
func (f *specForest) Apply(dels []Hash, adds []Hash) {
	dset := map[Hash]bool{}
	for _, d := range dels {
		dset[d] = true
	}
	for s, h := range f.alive {
		if dset[h] {
			delete(f.alive, s)
		}
	}
	for _, a := range adds {
		f.alive[f.n] = a
		f.n++
	}
}

func (f *specForest) liveHashes() []Hash {
	var slots []uint64
	for s := range f.alive {
		slots = append(slots, s)
	}
	sort.Slice(slots, func(a, b int) bool { return slots[a] < slots[b] })
	var out []Hash
	for _, s := range slots {
		out = append(out, f.alive[s])
	}
	return out
}

// leafHash: deterministic, distinct, non-empty, distinct 12-byte prefixes.
func specLeaf(i int) Hash {
	var h Hash
	h[0] = 0xC0
	h[1] = byte(i >> 8)
	h[2] = byte(i)
	h[3] = 0x01
	h[4] = byte(i >> 16) // zero for the first 65 536 slots: the values used by the small histories are unchanged
	h[5] = byte(i >> 24)
	h[31] = byte(i*7 + 1)
	return h
}

// ---- placed nodes with the slot range they stand for -------------------------------------------------

type specNode struct {
	Row  uint8  // row at which the node is placed
	Off  uint64 // offset in that row
	Lo   uint64 // first slot of the range the node stands for
	H    uint8  // log2 of the size of that range
	Hash Hash
	Two  bool // both children have survivors (a real parent node)
}

// PlacedNodes: like Placed but with the slot range of every node; keyed by position in `rows` coordinates.
func (f *specForest) PlacedNodes(rows uint8) map[uint64]specNode {
	out := map[uint64]specNode{}
	var place func(lo uint64, h uint8, row uint8, off uint64, standLo uint64, standH uint8)
	place = func(lo uint64, h uint8, row uint8, off uint64, standLo uint64, standH uint8) {
		hash, ok := f.cnode(lo, h)
		if !ok {
			return
		}
		if h == 0 {
			out[specPos(row, off, rows)] = specNode{row, off, standLo, standH, hash, false}
			return
		}
		half := uint64(1) << (h - 1)
		_, lok := f.cnode(lo, h-1)
		_, rok := f.cnode(lo+half, h-1)
		switch {
		case lok && rok:
			out[specPos(row, off, rows)] = specNode{row, off, standLo, standH, hash, true}
			place(lo, h-1, row-1, 2*off, lo, h-1)
			place(lo+half, h-1, row-1, 2*off+1, lo+half, h-1)
		case lok:
			place(lo, h-1, row, off, standLo, standH)
		case rok:
			place(lo+half, h-1, row, off, standLo, standH)
		}
	}
	for _, t := range f.trees() {
		off := t.base >> t.row
		if _, ok := f.cnode(t.base, t.row); !ok {
			out[specPos(t.row, off, rows)] = specNode{t.row, off, t.base, t.row, Hash{}, false}
			continue
		}
		place(t.base, t.row, t.row, off, t.base, t.row)
	}
	return out
}

// UpdateDataSpec: the update data of a block, from the C11 statement.
func UpdateDataSpec(pre *specForest, dels []Hash, adds []Hash) UpdateData {
	var ud UpdateData
	ud.PrevNumLeaves = pre.n
	rowsPre := specTreeRows(pre.n)
	after := pre.clone()
	after.Apply(dels, nil)
	fin := after.clone()
	fin.Apply(nil, adds)
	rowsFin := specTreeRows(fin.n)

	// ToDestroy: empty roots overwritten by the additions, in order of destruction, post-block coordinates.
	step := after.clone()
	ud.ToDestroy = []uint64{}
	for _, a := range adds {
		n := step.n
		for h := uint8(0); (n>>h)&1 == 1; h++ {
			base := (n >> (h + 1)) << (h + 1)
			if _, ok := step.cnode(base, h); !ok {
				ud.ToDestroy = append(ud.ToDestroy, specPos(h, base>>h, rowsFin))
			}
		}
		step.Apply(nil, []Hash{a})
	}

	// NewDel*: every pre-block node on a path from a deleted target to its root, with its pre-block
	// position and the hash its subtree has after the deletions (zero if nothing survives).
	lp := pre.LeafPositions(rowsPre)
	var targets []uint64
	for _, d := range dels {
		targets = append(targets, lp[d])
	}
	nodes := pre.PlacedNodes(rowsPre)
	var dpos []uint64
	for q := range pre.pathNodes(targets, rowsPre) {
		dpos = append(dpos, q)
	}
	sort.Slice(dpos, func(a, b int) bool { return dpos[a] < dpos[b] })
	for _, q := range dpos {
		nd := nodes[q]
		hv, _ := after.cnode(nd.Lo, nd.H)
		ud.NewDelPos = append(ud.NewDelPos, q)
		ud.NewDelHash = append(ud.NewDelHash, hv)
	}

	// NewAdd*: every added leaf and every child of a parent created by the additions, final positions.
	finNodes := fin.PlacedNodes(rowsFin)
	addm := map[uint64]Hash{}
	for _, nd := range finNodes {
		isAdded := nd.H == 0 && nd.Lo >= pre.n && !nd.Two && nd.Hash != (Hash{})
		_ = isAdded
	}
	flp := fin.LeafPositions(rowsFin)
	for _, a := range adds {
		addm[flp[a]] = a
	}
	for _, nd := range finNodes {
		if !nd.Two {
			continue
		}
		// the node's own subtree range: recompute from its children; a created parent contains an added slot
		if nd.Lo+(uint64(1)<<nd.H) <= pre.n {
			continue
		}
		// its real range may be smaller than the range it stands for; find whether any added leaf is below it
		below := false
		for _, a := range adds {
			p := flp[a]
			r, o, _ := specRowOff(p, rowsFin)
			if r < nd.Row && (o>>(nd.Row-r)) == nd.Off {
				below = true
			}
		}
		if !below {
			continue
		}
		l := specPos(nd.Row-1, 2*nd.Off, rowsFin)
		rr := specPos(nd.Row-1, 2*nd.Off+1, rowsFin)
		addm[l] = finNodes[l].Hash
		addm[rr] = finNodes[rr].Hash
	}
	var apos []uint64
	for p := range addm {
		apos = append(apos, p)
	}
	sort.Slice(apos, func(a, b int) bool { return apos[a] < apos[b] })
	for _, p := range apos {
		ud.NewAddPos = append(ud.NewAddPos, p)
		ud.NewAddHash = append(ud.NewAddHash, addm[p])
	}
	return ud
}
