//go:build verif

package utreexo

import (
	"fmt"
	"math/rand"
	"testing"
	"time"
)

// C04 bounded clause: every verification entry point returns (no panic, within the watchdog) on
// arbitrary targets / hashes / proof lengths, and a rejected Stump.Update leaves the stump unchanged.
func TestRAC_C04(t *testing.T) {
	res := newRacResult("C04")
	cfgs := []mapCfg{{Full: true, TotalRows: 63}, {Full: true, TotalRows: 0}, {Full: false, TotalRows: 63}}
	maxLeaves, maxBlocks := 5, 2
	maxT := 2
	if res.thorough() {
		maxLeaves, maxBlocks, maxT = 5, 3, 3
	}
	rng := rand.New(rand.NewSource(res.Seed + 404))
	var cur map[string]interface{}
	var curReplay func()
	done := make(chan bool, 1)
	n := 0
	go func() {
		enumHistories(maxLeaves, maxBlocks, func(h racHistory) {
			w, ok := replayHistory(res, h, cfgs, false)
			if !ok {
				return
			}
			n++
			rows := specTreeRows(w.spec.n)
			placed := w.spec.Placed(rows)
			maxp := (uint64(2) << rows) + 1
			var pool []uint64
			for p := uint64(0); p <= maxp; p++ {
				pool = append(pool, p)
			}
			pool = append(pool, uint64(1)<<63, ^uint64(0), ^uint64(0)-1, uint64(1)<<32)
			hashOf := func(p uint64, k int) Hash {
				switch k {
				case 0:
					if hv, ok := placed[p]; ok && hv != (Hash{}) {
						return hv
					}
					return Hash{0xFA, 0x01}
				case 1:
					rs := w.spec.Roots()
					if len(rs) > 0 && rs[0] != (Hash{}) {
						return rs[0]
					}
					return Hash{0xFA, 0x02}
				}
				return Hash{0xFA, 0x03}
			}
			var rec func(ts []uint64)
			try := func(ts []uint64) {
				for hk := 0; hk < 3; hk++ {
					var hs []Hash
					for _, p := range ts {
						hs = append(hs, hashOf(p, hk))
					}
					for _, extraHash := range []int{0, -1, 1} { // mismatched lengths too
						hh := hs
						if extraHash == -1 && len(hh) > 0 {
							hh = hh[:len(hh)-1]
						} else if extraHash == 1 {
							hh = append(cloneHashes(hh), Hash{0xFA, 0x04})
						}
						for plen := 0; plen <= int(rows)+2; plen += 1 {
							var pf []Hash
							for k := 0; k < plen; k++ {
								pf = append(pf, Hash{0xFB, byte(k + 1)})
							}
							pr := Proof{Targets: ts, Proof: pf}
							cur = map[string]interface{}{"history": h.String(), "targets": ts, "hashes": shortHashes(hh), "proof_len": plen}
							curReplay = func() {
								safely(func() { Verify(Stump{Roots: w.stump.Roots, NumLeaves: w.stump.NumLeaves}, hh, pr) })
								safely(func() { w.pol.Verify(hh, pr, false) })
								for _, m := range w.maps {
									safely(func() { m.Verify(hh, pr, false) })
									safely(func() { m.VerifyPartialProof(ts, hh, pf, false) })
								}
								st := Stump{Roots: cloneHashes(w.stump.Roots), NumLeaves: w.stump.NumLeaves}
								safely(func() { st.Update(hh, []Hash{{0xAD, 1}}, pr) })
							}
							res.seen(fmt.Sprint(cur))
							call := func(name string, f func()) {
								res.eval("Verify.rac.total")
								if pan := safely(f); pan != "" {
									in := map[string]interface{}{"history": h.String(), "targets": ts, "hashes": shortHashes(hh), "proof_len": plen, "entry": name}
									res.fail("Verify.rac.total", in, "panic: "+pan, "returns without panicking")
								}
							}
							call("Verify", func() { Verify(Stump{Roots: w.stump.Roots, NumLeaves: w.stump.NumLeaves}, hh, pr) })
							call("Pollard.Verify", func() { w.pol.Verify(hh, pr, false) })
							for _, m := range w.maps {
								call("MapPollard.Verify", func() { m.Verify(hh, pr, false) })
								call("MapPollard.VerifyPartialProof", func() { m.VerifyPartialProof(ts, hh, pf, false) })
							}
							// atomic rejection
							st := Stump{Roots: cloneHashes(w.stump.Roots), NumLeaves: w.stump.NumLeaves}
							before := fmt.Sprint(st.Roots, st.NumLeaves)
							var uerr error
							call("Stump.Update", func() { _, uerr = st.Update(hh, []Hash{{0xAD, 1}}, pr) })
							res.eval("Stump.Update.rac.atomic-reject")
							if uerr != nil && fmt.Sprint(st.Roots, st.NumLeaves) != before {
								res.fail("Stump.Update.rac.atomic-reject", cur, "state changed on rejection", "leaf count and every root unchanged")
							}
						}
					}
				}
			}
			rec = func(ts []uint64) {
				if len(ts) > 0 {
					try(ts)
				}
				if len(ts) == maxT {
					return
				}
				for _, p := range pool {
					// the third target is a seeded sample (1 in 8)
					if len(ts) >= 2 && rng.Intn(8) != 0 {
						continue
					}
					rec(append(append([]uint64{}, ts...), p))
				}
			}
			rec(nil)
			if n%17 == 1 {
				res.sample(cur)
			}
		})
		done <- true
	}()
	// watchdog: a single call that makes no progress for 15 s is a call that does not return
	last, stuck := -1, 0
	finished := false
	for !finished {
		select {
		case <-done:
			res.Exhaustive = true
			finished = true
		case <-time.After(5 * time.Second):
			if res.Evaluations == last {
				stuck++
			} else {
				stuck = 0
			}
			last = res.Evaluations
			if stuck >= 3 {
				// no progress for 15 s: either a call that does not return, or a starved process on a busy machine.
				// Decide by running the same calls again on their own: a hanging input hangs again.
				confirm := make(chan bool, 1)
				if rp := curReplay; rp != nil {
					go func() { rp(); confirm <- true }()
				}
				select {
				case <-confirm:
					stuck = 0 // the input returns: the worker was only slow
				case <-time.After(60 * time.Second):
					res.eval("Verify.rac.returns")
					res.fail("Verify.rac.returns", cur, "a verification call did not return within 15 s, and not within 60 s when repeated on its own", "every entry point returns in time polynomial in the input size")
					finished = true
				}
			}
		}
	}
	res.Rule = fmt.Sprintf("every reachable state of histories with <= %d leaves / <= %d blocks; every target tuple of size <= %d over [0, 2^(rows+1)+1] u {2^32, 2^63, 2^64-2, 2^64-1} (with repetition); hashes from {true node hash, a root hash, fresh}; hash list one shorter / equal / one longer than the targets; proof lengths 0..rows+2; entry points Verify, Stump.Update, Pollard.Verify, MapPollard.Verify, VerifyPartialProof; a global watchdog detects a call that does not return. distinct = (state, targets, hashes, proof length) tuples", maxLeaves, maxBlocks, maxT)
	res.Scope = fmt.Sprintf("states=%d", n)
	res.write(t)
}
