//go:build verif

package utreexo

import (
	"fmt"
	"math/rand"
	"sort"
	"testing"
)

func posSet(ps []uint64) map[uint64]bool {
	m := map[uint64]bool{}
	for _, p := range ps {
		m[p] = true
	}
	return m
}

// C14 contracts (bounded):
//   AddProof(pA,pB,hA,hB,n):        == canonical proof of A u B, hashes parallel to the returned targets
//   GetProofSubset(p,h,wants,n):    == canonical proof of wants, hashes/targets in the order of wants; err <=> wants not covered
//   GetMissingPositions(n,T,W):     == CanonProofPositions(T u W) \ (CanonProofPositions(T) u pathNodes(T))
//   MapPollard.GetMissingPositions + VerifyPartialProof with the true hashes at exactly those positions succeeds
func TestRAC_C14(t *testing.T) {
	res := newRacResult("C14")
	maxLeaves, maxBlocks := 5, 2
	if res.thorough() {
		maxLeaves, maxBlocks = 6, 3
	}
	rng := rand.New(rand.NewSource(res.Seed + 1414))
	cfgs := []mapCfg{{Full: false, TotalRows: 63}, {Full: false, TotalRows: 0}, {Full: false, TotalRows: 3}}
	n := 0
	large := false // seeded larger histories: sampled subsets only
	perState := func(h racHistory) {
		w, ok := replayHistory(res, h, nil, false)
		if !ok {
			return
		}
		live := w.spec.liveHashes()
		if len(live) == 0 || w.spec.n < 2 {
			return
		}
		n++
		rows := specTreeRows(w.spec.n)
		lp := w.spec.LeafPositions(rows)
		placed := w.spec.Placed(rows)
		subs := subsetsOf(live, 5, rng, 12)
		if large {
			// small subsets (1..3 leaves) so that held and wanted targets sit in different trees and on different rows
			subs = nil
			for k := 0; k < 10; k++ {
				var S []Hash
				for _, x := range permuted(live, rng) {
					if len(S) < 1+rng.Intn(3) {
						S = append(S, x)
					}
				}
				subs = append(subs, S)
			}
		}
		for ai, A := range subs {
			for bi, B := range subs {
				if !res.thorough() && (ai*31+bi*17)%3 != 0 && len(subs) > 8 {
					continue // quick tier: a third of the pairs of large states
				}
				for _, perm := range []bool{false, true} {
					a, b := A, B
					if perm {
						a, b = permuted(A, rng), permuted(B, rng)
					}
					pa, _ := w.spec.CanonProof(a)
					pb, _ := w.spec.CanonProof(b)
					in := map[string]interface{}{"history": h.String(), "A": pa.Targets, "B": pb.Targets}
					res.seen(fmt.Sprintf("%s/%v/%v", h.String(), pa.Targets, pb.Targets))
					// union
					uset := map[Hash]bool{}
					for _, x := range a {
						uset[x] = true
					}
					for _, x := range b {
						uset[x] = true
					}
					var upos []uint64
					for x := range uset {
						upos = append(upos, lp[x])
					}
					sort.Slice(upos, func(i, j int) bool { return upos[i] < upos[j] })
					var wantHashes, wantProof []Hash
					for _, p := range upos {
						wantHashes = append(wantHashes, placed[p])
					}
					for _, q := range w.spec.CanonProofPositions(upos, rows) {
						wantProof = append(wantProof, placed[q])
					}
					sn := snap([][]Hash{a, b, pa.Proof, pb.Proof}, [][]uint64{pa.Targets, pb.Targets})
					var gh []Hash
					var gp Proof
					pan := safely(func() { gh, gp = AddProof(pa, pb, a, b, w.spec.n) })
					res.eval("AddProof.rac.union")
					if pan != "" || !u64Eq(gp.Targets, upos) || !hashesEq(gp.Proof, wantProof) || !hashesEq(gh, wantHashes) {
						res.fail("AddProof.rac.union", in, fmt.Sprintf("panic=%q targets=%v proof=%s hashes=%s", pan, gp.Targets, shortHashes(gp.Proof), shortHashes(gh)),
							fmt.Sprintf("targets=%v proof=%s hashes=%s", upos, shortHashes(wantProof), shortHashes(wantHashes)))
					}
					res.eval("C17.preserves.AddProof")
					if !sn.unchanged() {
						res.fail("C17.preserves.AddProof", in, "argument slices modified", "unchanged")
					}
					// restriction: proof of A restricted to (A n B) in B's order, and to B (error unless B subset of A)
					aset := hashSet(a)
					var wantsH []Hash
					covered := true
					for _, x := range b {
						if !aset[x] {
							covered = false
						}
						wantsH = append(wantsH, x)
					}
					var wants []uint64
					for _, x := range wantsH {
						wants = append(wants, lp[x])
					}
					wantsCopy := cloneU64(wants)
					sn2 := snap([][]Hash{a, pa.Proof}, [][]uint64{pa.Targets, wants})
					var sh []Hash
					var sp Proof
					var serr error
					pan = safely(func() { sh, sp, serr = GetProofSubset(pa, a, wants, w.spec.n) })
					res.eval("GetProofSubset.rac.error-iff-uncovered")
					if pan != "" || (serr != nil) == covered {
						res.fail("GetProofSubset.rac.error-iff-uncovered", in, fmt.Sprintf("panic=%q err=%v", pan, serr), fmt.Sprintf("error exactly when a wanted target is not covered (covered=%v)", covered))
					}
					if pan == "" && serr == nil && covered {
						var wp []Hash
						for _, q := range w.spec.CanonProofPositions(wants, rows) {
							wp = append(wp, placed[q])
						}
						res.eval("GetProofSubset.rac.canonical")
						if !u64Eq(sp.Targets, wantsCopy) || !hashesEq(sh, wantsH) || !hashesEq(sp.Proof, wp) {
							res.fail("GetProofSubset.rac.canonical", in, fmt.Sprintf("targets=%v hashes=%s proof=%s", sp.Targets, shortHashes(sh), shortHashes(sp.Proof)),
								fmt.Sprintf("targets=%v hashes=%s proof=%s", wantsCopy, shortHashes(wantsH), shortHashes(wp)))
						}
					}
					res.eval("C17.preserves.GetProofSubset")
					if !sn2.unchanged() {
						res.fail("C17.preserves.GetProofSubset", in, "argument slices modified", "unchanged")
					}
					// completion
					T := cloneU64(pa.Targets)
					W := cloneU64(pb.Targets)
					var miss []uint64
					pan = safely(func() { miss = GetMissingPositions(w.spec.n, T, W) })
					held := posSet(w.spec.CanonProofPositions(pa.Targets, rows))
					for q := range w.spec.pathNodes(pa.Targets, rows) {
						held[q] = true
					}
					var wantMiss []uint64
					for _, q := range w.spec.CanonProofPositions(upos, rows) {
						if !held[q] {
							wantMiss = append(wantMiss, q)
						}
					}
					res.eval("GetMissingPositions.rac.exact")
					if pan != "" || fmt.Sprint(sortedU64(miss)) != fmt.Sprint(sortedU64(wantMiss)) {
						res.fail("GetMissingPositions.rac.exact", in, fmt.Sprintf("panic=%q %v", pan, miss), fmt.Sprint(wantMiss))
					}
				}
			}
		}
		// partial forest: remember a subset, ask what is missing for another subset, supply exactly that
		for _, cfg := range cfgs {
			for trial := 0; trial < 3; trial++ {
				cached := subsetsOf(live, 0, rng, 1)[0]
				want := subsetsOf(live, 0, rng, 1)[0]
				m := NewMapPollardFromRoots(w.spec.Roots(), w.spec.n, false)
				_ = cfg
				cp, _ := w.spec.CanonProof(cached)
				if err := m.Verify(cached, cp, true); err != nil {
					res.eval("MapPollard.Verify.rac.accepts-canonical")
					res.fail("MapPollard.Verify.rac.accepts-canonical", map[string]interface{}{"history": h.String(), "cached": cp.Targets}, err.Error(), "accepted")
					continue
				}
				wp, _ := w.spec.CanonProof(want)
				in := map[string]interface{}{"history": h.String(), "cached": cp.Targets, "want": wp.Targets}
				tcopy := cloneU64(wp.Targets)
				var miss []uint64
				pan := safely(func() { miss = m.GetMissingPositions(wp.Targets) })
				res.eval("C17.preserves.MapPollard.GetMissingPositions")
				if !u64Eq(tcopy, wp.Targets) {
					res.fail("C17.preserves.MapPollard.GetMissingPositions", in, "targets modified", "unchanged")
				}
				var supply []Hash
				okp := true
				for _, q := range miss {
					hv, ok := placed[q]
					if !ok {
						okp = false
					}
					supply = append(supply, hv)
				}
				res.eval("MapPollard.GetMissingPositions.rac.positions-exist")
				if pan != "" || !okp {
					res.fail("MapPollard.GetMissingPositions.rac.positions-exist", in, fmt.Sprintf("panic=%q %v", pan, miss), "positions of existing nodes")
					continue
				}
				// exactly the canonical proof positions of `want` that the forest does not store
				res.eval("MapPollard.GetMissingPositions.rac.subset-of-canonical")
				canon := posSet(w.spec.CanonProofPositions(wp.Targets, rows))
				for _, q := range miss {
					if !canon[q] {
						res.fail("MapPollard.GetMissingPositions.rac.subset-of-canonical", in, fmt.Sprint(miss), fmt.Sprint(w.spec.CanonProofPositions(wp.Targets, rows)))
						break
					}
				}
				var verr error
				pan = safely(func() { verr = m.VerifyPartialProof(wp.Targets, want, supply, false) })
				res.eval("MapPollard.VerifyPartialProof.rac.completes")
				if pan != "" || verr != nil {
					res.fail("MapPollard.VerifyPartialProof.rac.completes", in, fmt.Sprintf("panic=%q err=%v missing=%v", pan, verr, miss), "verification succeeds with the true hashes at the missing positions")
				}
			}
		}
		if n%97 == 1 {
			res.sample(map[string]interface{}{"history": h.String(), "live": len(live), "subset_pairs": len(subs) * len(subs)})
		}
	}
	enumHistories(maxLeaves, maxBlocks, perState)
	// seeded larger forests (up to ~40 leaves): leaves moved up by deletions, several trees, targets on different rows
	large = true
	nLarge := 60
	if res.thorough() {
		nLarge = 600
	}
	for k := 0; k < nLarge; k++ {
		perState(randomHistory(rng, 2+rng.Intn(5), 9))
	}
	res.Exhaustive = !false
	res.Rule = fmt.Sprintf("every reachable state of histories with <= %d leaves / <= %d blocks with >= 2 leaves; all pairs (A,B) of non-empty live subsets (quick: a third of the pairs when a state has more than 8 subsets), each in sorted and in seeded parallel-permuted order: AddProof, GetProofSubset(proof of A, targets of B), GetMissingPositions; plus partial MapPollard (from roots) with seeded cached/wanted subsets for GetMissingPositions + VerifyPartialProof; plus the same clauses on seeded random histories of 2..6 blocks with up to 9 additions each (leaves moved up by deletions, several trees) with ten sampled subsets of 1..3 live leaves per state (sampled, not exhaustive). Oracle: specForest.CanonProofPositions / pathNodes. distinct = (state, A, B) triples", maxLeaves, maxBlocks)
	res.Scope = fmt.Sprintf("states=%d", n)
	res.write(t)
}
