//go:build verif

package utreexo

import (
	"fmt"
	"math/rand"
	"testing"
)

type proofVariant struct {
	name   string
	hashes []Hash
	proof  Proof
}

// blockVariants: accepted encodings of one deletion proof (C05 quantifier).
func blockVariants(w *racWorld, bd blockData, rng *rand.Rand) []proofVariant {
	vs := []proofVariant{{"canonical", cloneHashes(bd.delHashes), cloneProof(bd.proof)}}
	n := len(bd.delHashes)
	if n > 1 {
		rh, rp := cloneHashes(bd.delHashes), cloneProof(bd.proof)
		for i, j := 0, n-1; i < j; i, j = i+1, j-1 {
			rh[i], rh[j] = rh[j], rh[i]
			rp.Targets[i], rp.Targets[j] = rp.Targets[j], rp.Targets[i]
		}
		vs = append(vs, proofVariant{"reversed", rh, rp})
		ph, pp := cloneHashes(bd.delHashes), cloneProof(bd.proof)
		rng.Shuffle(n, func(i, j int) { ph[i], ph[j] = ph[j], ph[i]; pp.Targets[i], pp.Targets[j] = pp.Targets[j], pp.Targets[i] })
		vs = append(vs, proofVariant{"permuted", ph, pp})
	}
	if n > 0 {
		for junk := 1; junk <= 2; junk++ {
			jp := cloneProof(bd.proof)
			for k := 0; k < junk; k++ {
				jp.Proof = append(jp.Proof, Hash{0xBA, 0xD0, byte(k + 1)})
			}
			vs = append(vs, proofVariant{fmt.Sprintf("junk+%d", junk), cloneHashes(bd.delHashes), jp})
		}
	}
	if n > 1 {
		var ha, hb []Hash
		for i, h := range bd.delHashes {
			if i%2 == 0 {
				ha = append(ha, h)
			} else {
				hb = append(hb, h)
			}
		}
		pa, e1 := w.spec.CanonProof(ha)
		pb, e2 := w.spec.CanonProof(hb)
		if e1 == nil && e2 == nil {
			var hs []Hash
			var pr Proof
			if safely(func() { hs, pr = AddProof(pa, pb, ha, hb, w.spec.n) }) == "" {
				vs = append(vs, proofVariant{"AddProof(halves)", hs, pr})
			}
		}
	}
	if n > 0 {
		live := w.spec.liveHashes()
		super, err := w.spec.CanonProof(live)
		if err == nil && len(live) > n {
			var hs []Hash
			var pr Proof
			var gerr error
			if safely(func() { hs, pr, gerr = GetProofSubset(super, live, cloneU64(bd.proof.Targets), w.spec.n) }) == "" && gerr == nil {
				vs = append(vs, proofVariant{"GetProofSubset(all-live)", hs, pr})
			}
		}
	}
	return vs
}

// C05 contract (bounded): Verify accepts (hashes, proof) && targets are the live leaves' positions
//   ==> every implementation's roots after applying the block == specForest(Apply(A, dels, adds)).Roots
func TestRAC_C05(t *testing.T) {
	res := newRacResult("C05")
	cfgs := []mapCfg{{Full: true, TotalRows: 63}, {Full: true, TotalRows: 0}, {Full: false, TotalRows: 63}, {Full: false, TotalRows: 3}, {Full: false, TotalRows: 0},
		{Full: false, TotalRows: 63, NoRemember: true}, {Full: false, TotalRows: 0, NoRemember: true}}
	if res.thorough() {
		cfgs = racMapCfgs(true)
	}
	maxLeaves, maxBlocks := 6, 3
	if res.thorough() {
		maxLeaves, maxBlocks = 7, 4
	}
	rng := rand.New(rand.NewSource(res.Seed + 505))
	n, accepted := 0, 0
	enumHistories(maxLeaves, maxBlocks, func(h racHistory) {
		last := len(h) - 1
		if len(h[last].Dels) == 0 {
			return
		}
		base := newWorld(nil)
		for k := 0; k < last; k++ {
			if !base.applyAll(res, h, k, false) {
				return
			}
		}
		bd, err := base.prepare(h[last])
		if err != nil {
			return
		}
		n++
		wantSpec := base.spec.clone()
		wantSpec.Apply(bd.delHashes, bd.adds)
		want := wantSpec.Roots()
		for _, v := range blockVariants(base, bd, rng) {
			in := map[string]interface{}{"history": h.String(), "variant": v.name, "targets": v.proof.Targets, "proof_len": len(v.proof.Proof)}
			res.seen(h.String() + "/" + v.name)
			var verr error
			pan := safely(func() {
				_, verr = Verify(Stump{Roots: cloneHashes(base.stump.Roots), NumLeaves: base.stump.NumLeaves}, v.hashes, v.proof)
			})
			res.eval("Verify.rac.total")
			if pan != "" {
				res.fail("Verify.rac.total", in, "panic "+pan, "no panic")
				continue
			}
			if verr != nil {
				continue
			}
			// the targets must be exactly the live leaves named (property precondition)
			if !u64Eq(sortedU64(v.proof.Targets), sortedU64(bd.proof.Targets)) {
				continue
			}
			accepted++
			// fresh instances in the pre-block state
			w := newWorld(cfgs)
			okp := true
			for k := 0; k < last; k++ {
				okp = okp && w.applyAll(res, h, k, false)
			}
			if !okp {
				continue
			}
			chk := func(clause, impl string, roots []Hash, nl uint64, perr error, pan string) {
				res.eval(clause)
				if pan != "" || perr != nil || !hashesEq(roots, want) || nl != wantSpec.n {
					in2 := map[string]interface{}{"history": h.String(), "variant": v.name, "impl": impl, "targets": v.proof.Targets}
					res.fail(clause, in2, fmt.Sprintf("panic=%q err=%v n=%d roots=%s", pan, perr, nl, shortHashes(roots)), fmt.Sprintf("n=%d roots=%s", wantSpec.n, shortHashes(want)))
				}
			}
			sn := snap([][]Hash{v.hashes, v.proof.Proof, bd.adds}, [][]uint64{v.proof.Targets})
			var e error
			p := safely(func() { _, e = w.stump.Update(v.hashes, bd.adds, v.proof) })
			chk("Stump.Update.rac.applied", "stump", w.stump.Roots, w.stump.NumLeaves, e, p)
			p = safely(func() { e = w.pol.Modify(bd.leaves, v.hashes, v.proof) })
			chk("Pollard.Modify.rac.applied", "pollard", w.pol.GetRoots(), w.pol.GetNumLeaves(), e, p)
			for i, m := range w.maps {
				if !w.cfgs[i].Full {
					// the light-forest flow: the deletions are first verified with remember (which ingests
					// this very encoding of the proof), then applied
					pv := safely(func() { e = m.Verify(v.hashes, v.proof, true) })
					res.eval("MapPollard.Verify.rac.accepts-variant")
					if pv != "" || e != nil {
						res.fail("MapPollard.Verify.rac.accepts-variant", map[string]interface{}{"history": h.String(), "variant": v.name, "impl": w.cfgs[i].String()}, fmt.Sprintf("panic=%q err=%v", pv, e), "accepted like Verify did")
					}
				}
				lv := bd.leaves
				if w.cfgs[i].NoRemember {
					lv = make([]Leaf, len(bd.leaves))
					for j, l := range bd.leaves {
						lv[j] = Leaf{Hash: l.Hash}
					}
				}
				p = safely(func() { e = m.Modify(lv, v.hashes, v.proof) })
				chk("MapPollard.Modify.rac.applied", w.cfgs[i].String(), m.GetRoots(), m.GetNumLeaves(), e, p)
			}
			// forests started from the bare roots of the pre-block state (light and full), as a bridge node would
			for _, fullFlag := range []bool{false, true} {
				fm := NewMapPollardFromRoots(cloneHashes(base.spec.Roots()), base.spec.n, fullFlag)
				var fe error
				fp := safely(func() {
					fe = fm.Verify(v.hashes, v.proof, true)
					if fe == nil {
						fe = fm.Modify(bd.leaves, v.hashes, v.proof)
					}
				})
				chk("MapPollard.Modify.rac.applied-from-roots", fmt.Sprintf("NewMapPollardFromRoots(full=%v)", fullFlag), fm.GetRoots(), fm.GetNumLeaves(), fe, fp)
			}
			res.eval("C17.preserves.block")
			if !sn.unchanged() {
				res.fail("C17.preserves.block", in, "argument slices modified", "unchanged")
			}
		}
		if n%977 == 1 {
			res.sample(map[string]interface{}{"history": h.String(), "variants": []string{"canonical", "reversed", "permuted", "junk+1", "junk+2", "AddProof(halves)", "GetProofSubset(all-live)"}})
		}
	})
	res.Exhaustive = true
	res.Rule = fmt.Sprintf("every history with <= %d leaves / <= %d blocks whose last block deletes something; for that block: canonical proof, reversed and seeded-permuted parallel order, 1-2 appended junk proof hashes, AddProof of two half proofs, GetProofSubset of the all-live proof; every variant Verify accepts is applied to fresh Stump, Pollard, MapPollard %v and compared with the spec roots. distinct = (history, variant) pairs", maxLeaves, maxBlocks, cfgs)
	res.Scope = fmt.Sprintf("blocks=%d accepted_variants=%d", n, accepted)
	res.write(t)
}
