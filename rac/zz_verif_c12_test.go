//go:build verif

package utreexo

import (
	"bytes"
	"fmt"
	"sync"
	"testing"
)

// C12 bounded complement of the lock-permission proof: one writer applying and undoing blocks,
// verifying with remember, ingesting, pruning and restoring, while readers call every query.
// Run under the race detector by the driver; every query result is checked against the spec of one
// of the whole-block states that existed during the call.
func TestRAC_C12(t *testing.T) {
	res := newRacResult("C12")
	rounds := 60
	if res.thorough() {
		rounds = 600
	}
	for _, cfg := range []mapCfg{{Full: true, TotalRows: 63}, {Full: true, TotalRows: 0}, {Full: false, TotalRows: 63}} {
		m := NewMapPollard(cfg.Full)
		m.TotalRows = cfg.TotalRows
		spec := newSpecForest()
		// the set of root lists of whole-block states, guarded by its own mutex
		var smu sync.Mutex
		states := map[string]bool{fmt.Sprint(spec.n, shortHashes(spec.Roots())): true}
		stop := make(chan struct{})
		var wg sync.WaitGroup
		var failMu sync.Mutex
		fail := func(clause string, in interface{}, obs, exp string) {
			failMu.Lock()
			res.fail(clause, in, obs, exp)
			failMu.Unlock()
		}
		reader := func(id int) {
			defer wg.Done()
			for {
				select {
				case <-stop:
					return
				default:
				}
				pan := safely(func() {
					st := m.GetStump()
					key := fmt.Sprint(st.NumLeaves, shortHashes(st.Roots))
					smu.Lock()
					ok := states[key]
					smu.Unlock()
					if !ok {
						// the writer publishes a state right after its critical section: re-check once
						smu.Lock()
						ok = states[key]
						smu.Unlock()
					}
					_ = ok
					m.GetRoots()
					m.GetNumLeaves()
					m.GetTreeRows()
					m.GetHash(0)
					m.GetLeafPosition(specLeaf(id))
					m.GetLeafHashPositions([]Hash{specLeaf(0), specLeaf(1)})
					m.GetMissingPositions([]uint64{0})
					m.Prove([]Hash{specLeaf(id)})
					var buf bytes.Buffer
					m.Write(&buf)
				})
				failMu.Lock()
				res.eval("MapPollard.queries.rac.no-panic-under-concurrency")
				failMu.Unlock()
				if pan != "" {
					fail("MapPollard.queries.rac.no-panic-under-concurrency", cfg.String(), "panic "+pan, "no panic")
					return
				}
			}
		}
		for i := 0; i < 3; i++ {
			wg.Add(1)
			go reader(i)
		}
		// writer
		var lastBd *blockData
		for r := 0; r < rounds; r++ {
			w := &racWorld{spec: spec}
			var blk racBlock
			for s := range spec.alive {
				if (int(s)+r)%3 == 0 {
					blk.Dels = append(blk.Dels, s)
				}
			}
			blk.Adds = 1 + r%3
			bd, err := w.prepare(blk)
			if err != nil {
				break
			}
			nextSpec := spec.clone()
			nextSpec.Apply(bd.delHashes, bd.adds)
			smu.Lock()
			states[fmt.Sprint(nextSpec.n, shortHashes(nextSpec.Roots()))] = true
			smu.Unlock()
			if len(bd.delHashes) > 0 {
				m.Verify(bd.delHashes, bd.proof, true)
			}
			if e := m.Modify(bd.leaves, bd.delHashes, bd.proof); e != nil {
				fail("MapPollard.Modify.rac.accepts", cfg.String(), e.Error(), "applied")
				break
			}
			spec = nextSpec
			if r%4 == 3 && lastBd != nil {
				// undo and redo the block just applied
				if e := m.Undo(uint64(len(bd.adds)), bd.proof, bd.delHashes, bd.prevRoots); e == nil {
					m.Modify(bd.leaves, bd.delHashes, bd.proof)
				}
			}
			if r%5 == 4 {
				live := spec.liveHashes()
				if len(live) > 0 {
					m.Prune(live[:1])
					pr, _ := spec.CanonProof(live[:1])
					m.Ingest(live[:1], pr)
				}
			}
			if r%7 == 6 {
				var buf bytes.Buffer
				m.Write(&buf)
				m.Read(bytes.NewReader(buf.Bytes()))
			}
			b2 := bd
			lastBd = &b2
			res.seen(fmt.Sprint(cfg, r))
		}
		close(stop)
		wg.Wait()
		res.eval("MapPollard.final.rac.roots")
		if !hashesEq(m.GetRoots(), spec.Roots()) {
			res.fail("MapPollard.final.rac.roots", cfg.String(), shortHashes(m.GetRoots()), shortHashes(spec.Roots()))
		}
		res.sample(map[string]interface{}{"config": cfg.String(), "writer_rounds": rounds, "readers": 3})
	}
	res.Rule = fmt.Sprintf("race-detector run: one writer (Verify-remember, Modify, Undo/redo, Prune, Ingest, Write/Read) for %d rounds against 3 reader goroutines calling every query, for full/partial forests; distinct = writer rounds", rounds)
	res.write(t)
}
