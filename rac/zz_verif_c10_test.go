//go:build verif

package utreexo

import (
	"bytes"
	"fmt"
	"math/rand"
	"testing"
)

// C10 contracts (bounded):
//   GetLeafPosition(h):  found <=> h is a live leaf the instance tracks; position == LeafPos(h)
//   GetHash(pos):        Placed[pos] when the node exists (and is stored), the all-zero hash otherwise
//   tracked live leaves: len(NodeMap) == NumLeaves-NumDels == CachedLeaves.Length() == adds - dels
func checkLookups(res *racResult, w *racWorld, h racHistory, dead []Hash, tag string) {
	rows := specTreeRows(w.spec.n)
	lp := w.spec.LeafPositions(rows)
	placed := w.spec.Placed(rows)
	in := func(extra ...interface{}) map[string]interface{} {
		m := map[string]interface{}{"history": h.String(), "state": tag}
		for i := 0; i+1 < len(extra); i += 2 {
			m[fmt.Sprint(extra[i])] = extra[i+1]
		}
		return m
	}
	// hash classes
	type hc struct {
		class string
		h     Hash
		pos   uint64
		live  bool
	}
	var classes []hc
	for hh, p := range lp {
		classes = append(classes, hc{"live-leaf", hh, p, true})
	}
	for _, d := range dead {
		if _, ok := lp[d]; !ok {
			classes = append(classes, hc{"dead-leaf", d, 0, false})
		}
	}
	leafSet := map[Hash]bool{}
	for hh := range lp {
		leafSet[hh] = true
	}
	for _, hv := range placed {
		if !leafSet[hv] && hv != (Hash{}) {
			classes = append(classes, hc{"internal-or-root", hv, 0, false})
		}
	}
	classes = append(classes, hc{"fresh", Hash{0xFE, 0xED, 1}, 0, false})
	for _, c := range classes {
		pos, found := w.pol.GetLeafPosition(c.h)
		res.eval("Pollard.GetLeafPosition.rac")
		if found != c.live || (found && pos != c.pos) {
			res.fail("Pollard.GetLeafPosition.rac", in("class", c.class, "hash", fmt.Sprintf("%x", c.h[:4])), fmt.Sprintf("(%d,%v)", pos, found), fmt.Sprintf("(%d,%v)", c.pos, c.live))
		}
		for i, m := range w.maps {
			pos, found := m.GetLeafPosition(c.h)
			res.eval("MapPollard.GetLeafPosition.rac")
			if found != c.live || (found && pos != c.pos) {
				res.fail("MapPollard.GetLeafPosition.rac", in("class", c.class, "hash", fmt.Sprintf("%x", c.h[:4]), "config", w.cfgs[i].String()), fmt.Sprintf("(%d,%v)", pos, found), fmt.Sprintf("(%d,%v)", c.pos, c.live))
			}
			ps := m.GetLeafHashPositions([]Hash{c.h})
			res.eval("MapPollard.GetLeafHashPositions.rac")
			wantp := uint64(0)
			if c.live {
				wantp = c.pos
			}
			if len(ps) != 1 || ps[0] != wantp {
				res.fail("MapPollard.GetLeafHashPositions.rac", in("class", c.class, "config", w.cfgs[i].String()), fmt.Sprint(ps), fmt.Sprint([]uint64{wantp}))
			}
		}
	}
	// positions
	maxp := (uint64(2) << rows) + 2
	for pos := uint64(0); pos <= maxp; pos++ {
		want := placed[pos] // zero when absent
		pclass := "position-of-an-existing-node"
		if _, ok := placed[pos]; !ok {
			pclass = "position-inside-the-rows-without-a-node"
			if pos >= (uint64(2)<<rows)-1 {
				pclass = "position-beyond-the-last-row"
			}
		}
		got := Hash{}
		pan := safely(func() { got = w.pol.GetHash(pos) })
		res.eval("Pollard.GetHash.rac")
		if pan != "" || got != want {
			res.fail("Pollard.GetHash.rac", in("pos", pos, "numLeaves", w.spec.n, "pos_class", pclass), fmt.Sprintf("panic=%q %x", pan, got[:4]), fmt.Sprintf("%x", want[:4]))
		}
		for i, m := range w.maps {
			pan := safely(func() { got = m.GetHash(pos) })
			res.eval("MapPollard.GetHash.rac")
			bad := pan != "" || (got != want && (w.cfgs[i].Full || got != (Hash{})))
			if bad {
				res.fail("MapPollard.GetHash.rac/"+pclass, in("pos", pos, "numLeaves", w.spec.n, "config", w.cfgs[i].String(), "pos_class", pclass), fmt.Sprintf("panic=%q %x", pan, got[:4]), fmt.Sprintf("%x (or zero when not stored)", want[:4]))
			}
		}
	}
	// counts
	liveN := len(w.spec.alive)
	res.eval("Pollard.count.rac")
	if len(w.pol.NodeMap) != liveN || int(w.pol.NumLeaves-w.pol.NumDels) != liveN {
		res.fail("Pollard.count.rac", in(), fmt.Sprintf("len(NodeMap)=%d NumLeaves-NumDels=%d", len(w.pol.NodeMap), w.pol.NumLeaves-w.pol.NumDels), fmt.Sprint(liveN))
	}
	for i, m := range w.maps {
		res.eval("MapPollard.count.rac")
		if m.CachedLeaves.Length() != liveN {
			res.fail("MapPollard.count.rac", in("config", w.cfgs[i].String()), fmt.Sprintf("CachedLeaves.Length()=%d", m.CachedLeaves.Length()), fmt.Sprint(liveN))
		}
	}
}

func deadHashes(w *racWorld) []Hash {
	var d []Hash
	liveVal := map[Hash]bool{}
	for _, hv := range w.spec.alive {
		liveVal[hv] = true
	}
	for i := 0; i < int(w.spec.n); i++ {
		if _, ok := w.spec.alive[uint64(i)]; !ok && !liveVal[racLeaf(i)] {
			d = append(d, racLeaf(i))
		}
	}
	return d
}

// restoredWorld: every forest of w written out and restored from the bytes (same spec, same verifier state).
func restoredWorld(res *racResult, w *racWorld, h racHistory) *racWorld {
	w2 := &racWorld{spec: w.spec, stump: w.stump, cfgs: w.cfgs}
	var buf bytes.Buffer
	if _, err := w.pol.WriteTo(&buf); err != nil {
		return nil
	}
	_, p2, err := RestorePollardFrom(bytes.NewReader(buf.Bytes()))
	res.eval("RestorePollardFrom.rac.restores")
	if err != nil || p2 == nil {
		res.fail("RestorePollardFrom.rac.restores", map[string]interface{}{"history": h.String()}, fmt.Sprint(err), "restored")
		return nil
	}
	w2.pol = p2
	for i, m := range w.maps {
		var mb bytes.Buffer
		if _, err := m.Write(&mb); err != nil {
			return nil
		}
		m2 := NewMapPollard(w.cfgs[i].Full)
		_, err := m2.Read(bytes.NewReader(mb.Bytes()))
		res.eval("MapPollard.Read.rac.restores")
		if err != nil {
			res.fail("MapPollard.Read.rac.restores", map[string]interface{}{"history": h.String(), "config": w.cfgs[i].String()}, fmt.Sprint(err), "restored")
			return nil
		}
		w2.maps = append(w2.maps, &m2)
	}
	return w2
}

func TestRAC_C10(t *testing.T) {
	res := newRacResult("C10")
	cfgs := racMapCfgs(res.thorough())
	maxLeaves, maxBlocks := 6, 3
	if res.thorough() {
		maxLeaves, maxBlocks = 7, 4
	}
	n := 0
	rng := rand.New(rand.NewSource(res.Seed + 1010))
	enumHistories(maxLeaves, maxBlocks, func(h racHistory) {
		w, ok := replayHistory(res, h, cfgs, false)
		if !ok {
			return
		}
		n++
		res.seen(fmt.Sprintf("n=%d live=%v", w.spec.n, w.spec.liveHashes()))
		checkLookups(res, w, h, deadHashes(w), "after-modify")
		// after restore from serialization (every second state in the quick tier)
		if n%2 == 0 || res.thorough() {
			if w2 := restoredWorld(res, w, h); w2 != nil {
				checkLookups(res, w2, h, deadHashes(w), "after-restore-from-bytes")
			}
		}
		// after Verify(remember=true) of a live subset (the look-ups must not change)
		live := w.spec.liveHashes()
		if len(live) > 0 && n%3 == 0 {
			sub := subsetsOf(live, 0, rng, 1)[0]
			pr, err := w.spec.CanonProof(sub)
			if err == nil {
				for _, m := range w.maps {
					m.Verify(sub, pr, true)
				}
				w.pol.Verify(sub, pr, true)
				checkLookups(res, w, h, deadHashes(w), "after-verify-remember "+shortHashes(sub))
			}
		}
		if n%701 == 1 {
			res.sample(map[string]interface{}{"history": h.String(), "positions_checked": (uint64(2) << specTreeRows(w.spec.n)) + 3, "live": len(live)})
		}
	})
	res.Exhaustive = true
	nr := 8
	if res.thorough() {
		nr = 100
	}
	for i := 0; i < nr; i++ {
		h := randomHistory(rng, 4+rng.Intn(10), 9)
		w, ok := replayHistory(res, h, cfgs, true)
		if ok {
			res.seen(fmt.Sprintf("n=%d live=%v", w.spec.n, w.spec.liveHashes()))
			checkLookups(res, w, h, deadHashes(w), "after-modify")
		}
	}
	res.Rule = fmt.Sprintf("every reachable state of histories with <= %d leaves / <= %d blocks (+%d seeded random histories), also after restore from serialization (every second state) and after Verify(remember=true) of a seeded live subset; hashes from {every live leaf, every dead leaf, every internal node and root hash, one fresh}; every position in [0, 2^(rows+1)+2]; Pollard and MapPollard %v; oracle specForest.Placed / LeafPositions. distinct = distinct abstract states", maxLeaves, maxBlocks, nr, cfgs)
	res.Scope = fmt.Sprintf("states=%d", n)
	res.write(t)
}
