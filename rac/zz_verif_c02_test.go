//go:build verif

package utreexo

import (
	"fmt"
	"math/rand"
	"sort"
	"testing"
)

// subsetsOf returns every non-empty subset of hs (all of them when len(hs) <= limitBits, a seeded sample beyond).
func subsetsOf(hs []Hash, limitBits int, rng *rand.Rand, sample int) [][]Hash {
	var out [][]Hash
	if len(hs) <= limitBits {
		for mask := 1; mask < (1 << len(hs)); mask++ {
			var s []Hash
			for i, h := range hs {
				if mask&(1<<i) != 0 {
					s = append(s, h)
				}
			}
			out = append(out, s)
		}
		return out
	}
	for k := 0; k < sample; k++ {
		var s []Hash
		for _, h := range hs {
			if rng.Intn(3) == 0 {
				s = append(s, h)
			}
		}
		if len(s) > 0 {
			out = append(out, s)
		}
	}
	out = append(out, cloneHashes(hs))
	return out
}

func permuted(hs []Hash, rng *rand.Rand) []Hash {
	p := cloneHashes(hs)
	rng.Shuffle(len(p), func(i, j int) { p[i], p[j] = p[j], p[i] })
	return p
}

// treesOf: the indexes (into the root list) of the trees that contain the targets.
func (f *specForest) treesOf(hashes []Hash) []int {
	set := map[int]bool{}
	ts := f.trees()
	for s, h := range f.alive {
		for _, want := range hashes {
			if h == want {
				for i, t := range ts {
					if s >= t.base && s < t.base+(uint64(1)<<t.row) {
						set[i] = true
					}
				}
			}
		}
	}
	var out []int
	for i := range set {
		out = append(out, i)
	}
	sort.Ints(out)
	return out
}

// checkProve: contracts of C02 for one request.
//   Prove: ensures err == nil && Targets[i] == LeafPos(hashes[i]) && Proof == CanonProof(Targets)
//   every verifier holding the same roots accepts; Verify reports exactly the trees containing the targets;
//   Pollard and MapPollard return identical proofs.
func checkProve(res *racResult, w *racWorld, h racHistory, req []Hash) {
	checkProveTagged(res, w, h, req, "")
}

// checkProveTagged: tag is appended to the clause names (used to separate classes of inputs).
func checkProveTagged(res *racResult, w *racWorld, h racHistory, req []Hash, tag string) {
	if tag != "" {
		res.tagged(tag, func(tmp *racResult) { checkProveTagged(tmp, w, h, req, "") })
		return
	}
	in := map[string]interface{}{"history": h.String(), "request": shortHashes(req)}
	want, err := w.spec.CanonProof(req)
	if err != nil {
		res.fail("harness.CanonProof", in, err.Error(), "spec proof exists")
		return
	}
	cmp := func(clause string, got Proof, gerr error, pan string) bool {
		res.eval(clause)
		if pan != "" || gerr != nil || !u64Eq(got.Targets, want.Targets) || !hashesEq(got.Proof, want.Proof) {
			res.fail(clause, in, fmt.Sprintf("panic=%q err=%v targets=%v proof=%s", pan, gerr, got.Targets, shortHashes(got.Proof)),
				fmt.Sprintf("targets=%v proof=%s", want.Targets, shortHashes(want.Proof)))
			return false
		}
		return true
	}
	var pp Proof
	var perr error
	sn := snap([][]Hash{req}, nil)
	pan := safely(func() { pp, perr = w.pol.Prove(req) })
	if len(req) > 0 && w.spec.n == 1 {
		// a forest with one leaf has the single target 0 and no proof (documented special case)
	}
	cmp("Pollard.Prove.rac.canonical", pp, perr, pan)
	res.eval("C17.preserves.Pollard.Prove")
	if !sn.unchanged() {
		res.fail("C17.preserves.Pollard.Prove", in, "request slice modified", "unchanged")
	}
	for i, m := range w.maps {
		var mp Proof
		var merr error
		pan := safely(func() { mp, merr = m.Prove(req) })
		in2 := map[string]interface{}{"history": h.String(), "request": shortHashes(req), "config": w.cfgs[i].String()}
		res.eval("MapPollard.Prove.rac.canonical")
		if pan != "" || merr != nil || !u64Eq(mp.Targets, want.Targets) || !hashesEq(mp.Proof, want.Proof) {
			res.fail("MapPollard.Prove.rac.canonical", in2, fmt.Sprintf("panic=%q err=%v targets=%v proof=%s", pan, merr, mp.Targets, shortHashes(mp.Proof)),
				fmt.Sprintf("targets=%v proof=%s", want.Targets, shortHashes(want.Proof)))
		}
		res.eval("C17.preserves.MapPollard.Prove")
		if !sn.unchanged() {
			res.fail("C17.preserves.MapPollard.Prove", in2, "request slice modified", "unchanged")
		}
	}
	// every verifier accepts the canonical proof
	proof := cloneProof(want)
	sn2 := snap([][]Hash{req, proof.Proof}, [][]uint64{proof.Targets})
	var idx []int
	var verr error
	stumpCopy := Stump{Roots: cloneHashes(w.stump.Roots), NumLeaves: w.stump.NumLeaves}
	pan = safely(func() { idx, verr = Verify(stumpCopy, req, proof) })
	res.eval("Verify.rac.accepts-canonical")
	if pan != "" || verr != nil {
		res.fail("Verify.rac.accepts-canonical", in, fmt.Sprintf("panic=%q err=%v", pan, verr), "accepted")
	} else {
		got := append([]int(nil), idx...)
		sort.Ints(got)
		res.eval("Verify.rac.trees")
		if fmt.Sprint(got) != fmt.Sprint(w.spec.treesOf(req)) {
			res.fail("Verify.rac.trees", in, fmt.Sprint(got), fmt.Sprint(w.spec.treesOf(req)))
		}
	}
	pan = safely(func() { verr = w.pol.Verify(req, proof, false) })
	res.eval("Pollard.Verify.rac.accepts-canonical")
	if pan != "" || verr != nil {
		res.fail("Pollard.Verify.rac.accepts-canonical", in, fmt.Sprintf("panic=%q err=%v", pan, verr), "accepted")
	}
	for i, m := range w.maps {
		pan = safely(func() { verr = m.Verify(req, proof, false) })
		res.eval("MapPollard.Verify.rac.accepts-canonical")
		if pan != "" || verr != nil {
			res.fail("MapPollard.Verify.rac.accepts-canonical", map[string]interface{}{"history": h.String(), "request": shortHashes(req), "config": w.cfgs[i].String()},
				fmt.Sprintf("panic=%q err=%v", pan, verr), "accepted")
		}
	}
	res.eval("C17.preserves.Verify")
	if !sn2.unchanged() {
		res.fail("C17.preserves.Verify", in, "argument slices modified by a verifier", "unchanged")
	}
}

func TestRAC_C02(t *testing.T) {
	res := newRacResult("C02")
	cfgs := racMapCfgs(res.thorough())
	maxLeaves, maxBlocks := 5, 3
	if res.thorough() {
		maxLeaves, maxBlocks = 7, 3
	}
	rng := rand.New(rand.NewSource(res.Seed + 202))
	n := 0
	enumHistories(maxLeaves, maxBlocks, func(h racHistory) {
		w, ok := replayHistory(res, h, cfgs, false)
		if !ok {
			return
		}
		live := w.spec.liveHashes()
		if len(live) == 0 {
			return
		}
		n++
		for _, sub := range subsetsOf(live, 7, rng, 20) {
			res.seen(fmt.Sprintf("n=%d live=%v req=%v", w.spec.n, live, sub))
			checkProve(res, w, h, sub)
			if len(sub) > 1 {
				checkProve(res, w, h, permuted(sub, rng))
			}
		}
		if n%499 == 1 {
			p, _ := w.spec.CanonProof(live)
			res.sample(map[string]interface{}{"history": h.String(), "request": "all live", "targets": p.Targets, "proof_len": len(p.Proof)})
		}
	})
	res.Exhaustive = true
	nr := 10
	if res.thorough() {
		nr = 150
	}
	for i := 0; i < nr; i++ {
		h := randomHistory(rng, 4+rng.Intn(10), 9)
		w, ok := replayHistory(res, h, cfgs, true)
		if !ok {
			continue
		}
		live := w.spec.liveHashes()
		if len(live) == 0 {
			continue
		}
		for _, sub := range subsetsOf(live, 4, rng, 12) {
			res.seen(fmt.Sprintf("n=%d live=%v req=%v", w.spec.n, live, sub))
			checkProve(res, w, h, permuted(sub, rng))
		}
	}
	// a forest with seventeen trees (2^17-1 leaves): one leaf out of every tree, in descending and in ascending tree
	// order, and a request with several leaves per tree
	{
		big := racHistory{{Adds: 1<<17 - 1}}
		if w, ok := replayHistory(res, big, []mapCfg{{Full: true, TotalRows: 63}, {Full: true, TotalRows: 0}}, false); ok {
			var perTree, many []Hash
			start := 0
			for size := 1 << 16; size >= 1; size >>= 1 {
				perTree = append(perTree, racLeaf(start+size-1))
				many = append(many, racLeaf(start))
				if size > 2 {
					many = append(many, racLeaf(start+size/2), racLeaf(start+size-1))
				}
				start += size
			}
			n++
			res.seen("big/17-trees")
			checkProve(res, w, big, perTree)
			rev := append([]Hash(nil), perTree...)
			for i, j := 0, len(rev)-1; i < j; i, j = i+1, j-1 {
				rev[i], rev[j] = rev[j], rev[i]
			}
			checkProve(res, w, big, rev)
			checkProve(res, w, big, many)
		}
	}
	// light forests that remember only some leaves (and forget some again): every remembered leaf provable with the
	// canonical proof after every block, Verify(remember) / Ingest and Prune (the C09 representation invariant)
	npart := 60
	if res.thorough() {
		npart = 800
	}
	runLongLivedClients(res, rng, npart, []uint8{0, 3, 63}, false)
	res.Rule = fmt.Sprintf("(+"+fmt.Sprint(npart)+" seeded long-lived light clients remembering only some leaves: clause MapPollard.partial.rac.provable; + a forest of 2^17-1 leaves (17 trees) with requests that touch every tree) "+"every reachable state of histories with <= %d leaves / <= %d blocks; every non-empty subset of live leaves in ascending order and in one seeded permutation; plus %d seeded random histories with seeded subsets; provers: Pollard, MapPollard %v; verifiers: Verify, Pollard.Verify, MapPollard.Verify; oracle: specForest.CanonProof. distinct = distinct (state, request) pairs", maxLeaves, maxBlocks, nr, cfgs)
	res.Scope = fmt.Sprintf("states=%d", n)
	res.write(t)
}
