//go:build verif

package utreexo

import (
	"bytes"
	"errors"
	"fmt"
	"io"
	"math/rand"
	"sort"
	"testing"
	"testing/iotest"
)

type chunkReader struct {
	data []byte
	rng  *rand.Rand
}

func (c *chunkReader) Read(p []byte) (int, error) {
	if len(c.data) == 0 {
		return 0, io.EOF
	}
	n := 1 + c.rng.Intn(7)
	if n > len(p) {
		n = len(p)
	}
	if n > len(c.data) {
		n = len(c.data)
	}
	copy(p, c.data[:n])
	c.data = c.data[n:]
	return n, nil
}

type failWriter struct {
	left int
}

func (f *failWriter) Write(p []byte) (int, error) {
	if len(p) <= f.left {
		f.left -= len(p)
		return len(p), nil
	}
	n := f.left
	f.left = 0
	return n, errors.New("sink failed")
}

func readersFor(data []byte, rng *rand.Rand) map[string]func() io.Reader {
	return map[string]func() io.Reader{
		"whole":         func() io.Reader { return bytes.NewReader(data) },
		"one-byte":      func() io.Reader { return iotest.OneByteReader(bytes.NewReader(data)) },
		"halves":        func() io.Reader { return iotest.HalfReader(bytes.NewReader(data)) },
		"random-chunks": func() io.Reader { return &chunkReader{append([]byte(nil), data...), rng} },
		"data-with-eof": func() io.Reader { return iotest.DataErrReader(bytes.NewReader(data)) },
	}
}

// storedString: everything a MapPollard stores, in a canonical order.
func storedString(m *MapPollard) string {
	var lines []string
	m.Nodes.ForEach(func(pos uint64, l Leaf) error {
		lines = append(lines, fmt.Sprintf("node %d %x %v", pos, l.Hash[:4], l.Remember))
		return nil
	})
	m.CachedLeaves.ForEach(func(h Hash, pos uint64) error {
		lines = append(lines, fmt.Sprintf("cached %x %d", h[:4], pos))
		return nil
	})
	sort.Strings(lines)
	return fmt.Sprintf("n=%d rows=%d %v", m.NumLeaves, m.TotalRows, lines)
}

// viewString: the observable state of a forest (C06's full view), as a comparable string.
func viewString(u Utreexo, spec *specForest) string {
	rows := specTreeRows(spec.n)
	s := fmt.Sprintf("n=%d roots=%s", u.GetNumLeaves(), shortHashes(u.GetRoots()))
	for _, h := range spec.liveHashes() {
		p, ok := u.GetLeafPosition(h)
		s += fmt.Sprintf(" lp(%x)=%d,%v", h[:3], p, ok)
	}
	for pos := uint64(0); pos < (uint64(2) << rows); pos++ {
		hv := u.GetHash(pos)
		s += fmt.Sprintf(" %x", hv[:3])
	}
	live := spec.liveHashes()
	if len(live) > 0 {
		pr, err := u.Prove(live)
		s += fmt.Sprintf(" prove=%v,%s,%v", pr.Targets, shortHashes(pr.Proof), err)
		pr, err = u.Prove(live[:1])
		s += fmt.Sprintf(" prove1=%v,%s,%v", pr.Targets, shortHashes(pr.Proof), err)
	}
	return s
}

// C13 contracts (bounded): restore(write(x)) is observationally x for every conforming reader chunking;
// a strict prefix gives an error or the identical state; a failing sink gives an error; no panics;
// byte counts == bytes consumed/produced; SerializeSize == bytes produced.
func TestRAC_C13(t *testing.T) {
	res := newRacResult("C13")
	cfgs := []mapCfg{{Full: true, TotalRows: 63}, {Full: true, TotalRows: 0}, {Full: false, TotalRows: 63}, {Full: false, TotalRows: 3},
		{Full: false, TotalRows: 63, RememberEven: true}, {Full: false, TotalRows: 0, NoRemember: true}}
	maxLeaves, maxBlocks := 5, 3
	if res.thorough() {
		maxLeaves, maxBlocks = 6, 3
		cfgs = racMapCfgs(true)
	}
	rng := rand.New(rand.NewSource(res.Seed + 1313))
	n := 0
	enumHistories(maxLeaves, maxBlocks, func(h racHistory) {
		w, ok := replayHistory(res, h, cfgs, false)
		if !ok {
			return
		}
		n++
		full := n%7 == 0 || res.thorough() // prefixes / failing sinks on every 7th state in the quick tier
		res.seen(fmt.Sprintf("n=%d live=%v", w.spec.n, w.spec.liveHashes()))
		// a follow-up block to check identical evolution
		var next racBlock
		for s := range w.spec.alive {
			next.Dels = append(next.Dels, s)
			break
		}
		next.Adds = 2
		wn := &racWorld{spec: w.spec.clone()}
		nbd, nerr := wn.prepare(next)
		wantNext := w.spec.clone()
		if nerr == nil {
			wantNext.Apply(nbd.delHashes, nbd.adds)
		}

		// ---------------- Pollard ----------------
		{
			in := func(extra ...interface{}) map[string]interface{} {
				m := map[string]interface{}{"history": h.String(), "impl": "pollard"}
				for i := 0; i+1 < len(extra); i += 2 {
					m[fmt.Sprint(extra[i])] = extra[i+1]
				}
				return m
			}
			var buf bytes.Buffer
			var wn64 int64
			var werr error
			pan := safely(func() { wn64, werr = w.pol.WriteTo(&buf) })
			res.eval("Pollard.WriteTo.rac.count")
			if pan != "" || werr != nil || int(wn64) != buf.Len() || w.pol.SerializeSize() != buf.Len() {
				res.fail("Pollard.WriteTo.rac.count", in(), fmt.Sprintf("panic=%q err=%v reported=%d SerializeSize=%d", pan, werr, wn64, w.pol.SerializeSize()), fmt.Sprintf("%d bytes produced", buf.Len()))
				return
			}
			data := buf.Bytes()
			want := viewString(w.pol, w.spec)
			for name, mk := range readersFor(data, rng) {
				var rn int64
				var p2 *Pollard
				var rerr error
				pan := safely(func() { rn, p2, rerr = RestorePollardFrom(mk()) })
				res.eval("RestorePollardFrom.rac.roundtrip/" + name)
				if pan != "" || rerr != nil || p2 == nil {
					res.fail("RestorePollardFrom.rac.roundtrip/"+name, in("reader", name, "bytes", len(data)), fmt.Sprintf("panic=%q err=%v", pan, rerr), "restored")
					continue
				}
				got := viewString(p2, w.spec)
				if got != want || int(rn) != len(data) || p2.NumDels != w.pol.NumDels {
					res.fail("RestorePollardFrom.rac.roundtrip/"+name, in("reader", name, "bytes", len(data)), fmt.Sprintf("count=%d %s", rn, got), fmt.Sprintf("count=%d %s", len(data), want))
					continue
				}
				if nerr == nil && name != "whole" {
					continue
				}
				if nerr == nil {
					// identical evolution under one more block and undo
					e1 := p2.Modify(nbd.leaves, nbd.delHashes, nbd.proof)
					res.eval("RestorePollardFrom.rac.evolves")
					if e1 != nil || !hashesEq(p2.GetRoots(), wantNext.Roots()) {
						res.fail("RestorePollardFrom.rac.evolves", in("reader", name), fmt.Sprintf("err=%v roots=%s", e1, shortHashes(p2.GetRoots())), shortHashes(wantNext.Roots()))
					} else if e2 := p2.Undo(uint64(len(nbd.adds)), nbd.proof, nbd.delHashes, nbd.prevRoots); e2 != nil || viewString(p2, w.spec) != want {
						res.fail("RestorePollardFrom.rac.evolves", in("reader", name, "step", "undo"), fmt.Sprintf("err=%v %s", e2, viewString(p2, w.spec)), want)
					}
				}
			}
			if full {
				for k := 0; k < len(data); k++ {
					var p2 *Pollard
					var rerr error
					var rn int64
					rd := bytes.NewReader(data[:k])
					pan := safely(func() { rn, p2, rerr = RestorePollardFrom(rd) })
					res.eval("RestorePollardFrom.rac.count-on-error")
					if consumed := k - rd.Len(); pan == "" && rerr != nil && int(rn) != consumed {
						res.fail("RestorePollardFrom.rac.count-on-error", in("prefix", k, "bytes", len(data)), fmt.Sprintf("err=%v reported=%d", rerr, rn), fmt.Sprintf("%d bytes consumed", consumed))
					}
					res.eval("RestorePollardFrom.rac.prefix")
					if pan != "" || (rerr == nil && (p2 == nil || viewString(p2, w.spec) != want)) {
						res.fail("RestorePollardFrom.rac.prefix", in("prefix", k, "bytes", len(data)), fmt.Sprintf("panic=%q err=%v (accepted a damaged stream)", pan, rerr), "an error, or a state identical to the original")
						break
					}
				}
				for k := 0; k < len(data); k++ {
					var werr error
					var wn int64
					pan := safely(func() { wn, werr = w.pol.WriteTo(&failWriter{k}) })
					res.eval("Pollard.WriteTo.rac.count-on-error")
					if pan == "" && werr != nil && int(wn) != k {
						res.fail("Pollard.WriteTo.rac.count-on-error", in("fail_offset", k), fmt.Sprintf("err=%v reported=%d", werr, wn), fmt.Sprintf("%d bytes produced", k))
					}
					res.eval("Pollard.WriteTo.rac.failing-sink")
					if pan != "" || werr == nil {
						res.fail("Pollard.WriteTo.rac.failing-sink", in("fail_offset", k), fmt.Sprintf("panic=%q err=%v", pan, werr), "an error")
						break
					}
				}
			}
		}
		// ---------------- MapPollard ----------------
		for i, m := range w.maps {
			in := func(extra ...interface{}) map[string]interface{} {
				mm := map[string]interface{}{"history": h.String(), "impl": w.cfgs[i].String()}
				for j := 0; j+1 < len(extra); j += 2 {
					mm[fmt.Sprint(extra[j])] = extra[j+1]
				}
				return mm
			}
			var buf bytes.Buffer
			var wn int
			var werr error
			pan := safely(func() { wn, werr = m.Write(&buf) })
			res.eval("MapPollard.Write.rac.count")
			if pan != "" || werr != nil || wn != buf.Len() {
				res.fail("MapPollard.Write.rac.count", in(), fmt.Sprintf("panic=%q err=%v reported=%d", pan, werr, wn), fmt.Sprintf("%d bytes produced", buf.Len()))
				continue
			}
			data := buf.Bytes()
			want := viewString(m, w.spec)
			for name, mk := range readersFor(data, rng) {
				m2 := NewMapPollard(w.cfgs[i].Full)
				var rn int
				var rerr error
				pan := safely(func() { rn, rerr = m2.Read(mk()) })
				res.eval("MapPollard.Read.rac.roundtrip/" + name)
				if pan != "" || rerr != nil {
					res.fail("MapPollard.Read.rac.roundtrip/"+name, in("reader", name, "bytes", len(data)), fmt.Sprintf("panic=%q err=%v", pan, rerr), "restored")
					continue
				}
				got := ""
				pan = safely(func() { got = viewString(&m2, w.spec) })
				if pan != "" || got != want || rn != len(data) {
					res.fail("MapPollard.Read.rac.roundtrip/"+name, in("reader", name, "bytes", len(data)), fmt.Sprintf("panic=%q count=%d %s", pan, rn, got), fmt.Sprintf("count=%d %s", len(data), want))
					continue
				}
				// the stored state itself (positions, hashes, remember flags, cached leaves) is restored exactly,
				// otherwise the restored forest prunes differently later
				res.eval("MapPollard.Read.rac.stored-state")
				if a, b := storedString(m), storedString(&m2); a != b {
					res.fail("MapPollard.Read.rac.stored-state", in("reader", name), b, a)
				}
				if nerr == nil && name == "whole" {
					if w.cfgs[i].NoRemember || w.cfgs[i].RememberEven {
						// light forests learn about the deletions first
						m2.Verify(nbd.delHashes, nbd.proof, true)
					}
					e1 := m2.Modify(nbd.leaves, nbd.delHashes, nbd.proof)
					res.eval("MapPollard.Read.rac.evolves")
					if e1 != nil || !hashesEq(m2.GetRoots(), wantNext.Roots()) {
						res.fail("MapPollard.Read.rac.evolves", in("reader", name), fmt.Sprintf("err=%v roots=%s", e1, shortHashes(m2.GetRoots())), shortHashes(wantNext.Roots()))
					} else if w.cfgs[i].NoRemember || w.cfgs[i].RememberEven {
						// (the undo of a light forest re-caches what Verify remembered: not comparable with the view before)
					} else if e2 := m2.Undo(uint64(len(nbd.adds)), nbd.proof, nbd.delHashes, nbd.prevRoots); e2 != nil || viewString(&m2, w.spec) != want {
						res.fail("MapPollard.Read.rac.evolves", in("reader", name, "step", "undo"), fmt.Sprintf("err=%v %s", e2, viewString(&m2, w.spec)), want)
					}
				}
			}
			if full {
				for k := 0; k < len(data); k++ {
					m2 := NewMapPollard(w.cfgs[i].Full)
					var rerr error
					var rn int
					rd := bytes.NewReader(data[:k])
					pan := safely(func() { rn, rerr = m2.Read(rd) })
					res.eval("MapPollard.Read.rac.count-on-error")
					if consumed := k - rd.Len(); pan == "" && rerr != nil && rn != consumed {
						res.fail("MapPollard.Read.rac.count-on-error", in("prefix", k, "bytes", len(data)), fmt.Sprintf("err=%v reported=%d", rerr, rn), fmt.Sprintf("%d bytes consumed", consumed))
					}
					res.eval("MapPollard.Read.rac.prefix")
					bad := pan != ""
					if !bad && rerr == nil {
						got := ""
						p2 := safely(func() { got = viewString(&m2, w.spec) })
						bad = p2 != "" || got != want
					}
					if bad {
						res.fail("MapPollard.Read.rac.prefix", in("prefix", k, "bytes", len(data)), fmt.Sprintf("panic=%q err=%v (accepted a damaged stream)", pan, rerr), "an error, or a state identical to the original")
						break
					}
				}
				if m.CachedLeaves.Length() > 0 && len(data) >= 57 {
					// a stream whose first cached leaf names a position that holds no node: rejected by the sanity
					// check after everything was consumed
					bad := append([]byte(nil), data...)
					for b := 49; b < 57; b++ {
						bad[b] = 0xEE
					}
					m2 := NewMapPollard(w.cfgs[i].Full)
					var rn int
					var rerr error
					rd := bytes.NewReader(bad)
					pan := safely(func() { rn, rerr = m2.Read(rd) })
					res.eval("MapPollard.Read.rac.count-on-error")
					if consumed := len(bad) - rd.Len(); pan == "" && rerr != nil && rn != consumed {
						res.fail("MapPollard.Read.rac.count-on-error", in("corrupted", "position of the first cached leaf", "bytes", len(data)), fmt.Sprintf("err=%v reported=%d", rerr, rn), fmt.Sprintf("%d bytes consumed", consumed))
					}
				}
				for k := 0; k < len(data); k++ {
					var werr error
					var wn int
					pan := safely(func() { wn, werr = m.Write(&failWriter{k}) })
					res.eval("MapPollard.Write.rac.count-on-error")
					if pan == "" && werr != nil && wn != k {
						res.fail("MapPollard.Write.rac.count-on-error", in("fail_offset", k), fmt.Sprintf("err=%v reported=%d", werr, wn), fmt.Sprintf("%d bytes produced", k))
					}
					res.eval("MapPollard.Write.rac.failing-sink")
					if pan != "" || werr == nil {
						res.fail("MapPollard.Write.rac.failing-sink", in("fail_offset", k), fmt.Sprintf("panic=%q err=%v", pan, werr), "an error")
						break
					}
				}
			}
		}
		if n%301 == 1 {
			res.sample(map[string]interface{}{"history": h.String(), "readers": []string{"whole", "one-byte", "halves", "random-chunks", "data-with-eof"}})
		}
	})
	res.Exhaustive = true
	res.Rule = fmt.Sprintf("every reachable state of histories with <= %d leaves / <= %d blocks; Pollard and MapPollard %v; write, restore through five reader chunkings (whole, 1 byte, halves, seeded 1-7 byte chunks, data-with-EOF), compare the full view, evolve by one block and undo; every truncation point and every writer failure offset (quick: on every 7th state); byte counts and SerializeSize. distinct = abstract states", maxLeaves, maxBlocks, cfgs)
	res.Scope = fmt.Sprintf("states=%d", n)
	res.write(t)
}
