//go:build verif

package utreexo

import (
	"fmt"
	"testing"
)

// C11 contract (bounded):  Stump.Update: ensures err == nil ==> ud == UpdateDataSpec(A, block)
func TestRAC_C11(t *testing.T) {
	res := newRacResult("C11")
	maxLeaves, maxBlocks := 6, 3
	if res.thorough() {
		maxLeaves, maxBlocks = 8, 3
	}
	n := 0
	enumHistories(maxLeaves, maxBlocks, func(h racHistory) { runC11(res, h, &n) })
	// the same contract with adversarial leaf values (values equal to hashes of internal nodes / roots,
	// values sharing 12-byte prefixes): the statement only makes the added leaves distinct and non-empty
	na := 0
	for _, a := range advAssignments() {
		racLeaf = a.leaf
		enumHistories(5, 3, func(h racHistory) {
			res.tagged("/leaf-values="+a.name, func(tmp *racResult) { runC11(tmp, h, &na) })
		})
	}
	racLeaf = specLeaf
	res.Exhaustive = true
	res.Rule = fmt.Sprintf("every history with <= %d leaves / <= %d blocks (and every history with <= 5 leaves / <= 3 blocks under each of the 4 adversarial value assignments of TestRAC_ADV); the update data of the last block of each history is compared field by field with UpdateDataSpec (written from the C11 statement over the spec forest). distinct = distinct (pre-state, block) pairs", maxLeaves, maxBlocks)
	res.Scope = fmt.Sprintf("blocks=%d (+%d with adversarial values)", n, na)
	res.write(t)
}

func runC11(res *racResult, h racHistory, np *int) {
	{
		n := *np
		defer func() { *np = n }()
		w := newWorld(nil)
		for k := 0; k < len(h)-1; k++ {
			if !w.applyAll(res, h, k, false) {
				return
			}
		}
		last := h[len(h)-1]
		bd, err := w.prepare(last)
		if err != nil {
			return
		}
		n++
		want := UpdateDataSpec(w.spec, bd.delHashes, bd.adds)
		var ud UpdateData
		var uerr error
		pan := safely(func() { ud, uerr = w.stump.Update(bd.delHashes, bd.adds, bd.proof) })
		in := map[string]interface{}{"history": h.String(), "block": len(h) - 1}
		res.seen(fmt.Sprintf("n=%d live=%v blk=%v", w.spec.n, w.spec.liveHashes(), last))
		if pan != "" || uerr != nil {
			res.eval("Stump.Update.rac.accepts")
			res.fail("Stump.Update.rac.accepts", in, fmt.Sprintf("panic=%q err=%v", pan, uerr), "accepted")
			return
		}
		cmp := func(clause string, got, exp interface{}) {
			res.eval(clause)
			if fmt.Sprint(got) != fmt.Sprint(exp) {
				in2 := map[string]interface{}{"history": h.String(), "block": len(h) - 1}
				res.fail(clause, in2, fmt.Sprint(got), fmt.Sprint(exp))
			}
		}
		cmp("Stump.Update.rac.PrevNumLeaves", ud.PrevNumLeaves, want.PrevNumLeaves)
		cmp("Stump.Update.rac.ToDestroy", append([]uint64{}, ud.ToDestroy...), want.ToDestroy)
		cmp("Stump.Update.rac.NewDelPos", append([]uint64(nil), ud.NewDelPos...), want.NewDelPos)
		cmp("Stump.Update.rac.NewDelHash", shortHashes(ud.NewDelHash), shortHashes(want.NewDelHash))
		// the added-leaf clause is split by whether the last added leaf ends up as a lone root
		cl := "Stump.Update.rac.NewAdd"
		cmp(cl+"Pos", append([]uint64(nil), ud.NewAddPos...), want.NewAddPos)
		cmp(cl+"Hash", shortHashes(ud.NewAddHash), shortHashes(want.NewAddHash))
		if n%613 == 1 {
			res.sample(map[string]interface{}{"history": h.String(), "ToDestroy": want.ToDestroy, "NewDelPos": want.NewDelPos, "NewAddPos": want.NewAddPos})
		}
	}
}
