//go:build verif

package utreexo

import (
	"math"
	"fmt"
	"math/rand"
	"sort"
	"testing"
)

// C15 contract (bounded) of CachingScheduleTracker.GenerateCachingSchedule, from the statement:
//   every scheduled position of block b is the insertion slot of a leaf added in b and deleted in a
//   later recorded block, once, ascending; at no block more than maxMemory scheduled leaves are alive;
//   with maxMemory >= number of such leaves the schedule contains all of them.
func checkSchedule(res *racResult, h racHistory) {
	spec := newSpecForest()
	cs := NewCachingScheduleTracker(len(h))
	// slot -> (added in block, deleted in block or -1)
	addedAt := map[uint64]int{}
	deletedAt := map[uint64]int{}
	for k, b := range h {
		w := &racWorld{spec: spec}
		bd, err := w.prepare(b)
		if err != nil {
			return
		}
		for _, s := range b.Dels {
			deletedAt[s] = k
		}
		for i := 0; i < b.Adds; i++ {
			addedAt[spec.n+uint64(i)] = k
		}
		targets := cloneU64(bd.proof.Targets)
		if pan := safely(func() { cs.AddBlockSummary(targets, uint16(b.Adds)) }); pan != "" {
			res.eval("AddBlockSummary.rac.total")
			res.fail("AddBlockSummary.rac.total", map[string]interface{}{"history": h.String(), "block": k}, "panic "+pan, "no panic")
			return
		}
		spec.Apply(bd.delHashes, bd.adds)
	}
	// the leaves that may be scheduled: added in a block and deleted in a later one
	want := map[int][]uint64{}
	total := 0
	for s, a := range addedAt {
		if d, ok := deletedAt[s]; ok && d > a {
			want[a] = append(want[a], s)
			total++
		}
	}
	for _, v := range want {
		sort.Slice(v, func(i, j int) bool { return v[i] < v[j] })
	}
	limits := []int{}
	for maxMem := 1; maxMem <= total+1; maxMem++ {
		limits = append(limits, maxMem)
	}
	limits = append(limits, math.MaxInt) // "unbounded"
	for _, maxMem := range limits {
		in := map[string]interface{}{"history": h.String(), "maxMemory": maxMem}
		res.seen(fmt.Sprintf("%s/%d", h.String(), maxMem))
		var sch [][]uint64
		pan := safely(func() { sch = cs.GenerateCachingSchedule(maxMem) })
		res.eval("GenerateCachingSchedule.rac.total")
		if pan != "" {
			res.fail("GenerateCachingSchedule.rac.total", in, "panic "+pan, "no panic")
			return
		}
		// real leaves, once, ascending
		okReal := len(sch) == len(h)
		alive := make([]int, len(h)+1)
		count := 0
		for b := 0; b < len(sch) && okReal; b++ {
			allowed := map[uint64]bool{}
			for _, s := range want[b] {
				allowed[s] = true
			}
			for i, p := range sch[b] {
				if !allowed[p] || (i > 0 && sch[b][i-1] >= p) {
					okReal = false
				}
				count++
				for blk := b; blk < deletedAt[p] && blk < len(h); blk++ {
					alive[blk]++
				}
			}
		}
		res.eval("GenerateCachingSchedule.rac.real-leaves")
		if !okReal {
			res.fail("GenerateCachingSchedule.rac.real-leaves", in, fmt.Sprint(sch), fmt.Sprintf("per block an ascending duplicate-free subset of %v", want))
			continue
		}
		res.eval("GenerateCachingSchedule.rac.memory-limit")
		for blk, a := range alive {
			if a > maxMem {
				res.fail("GenerateCachingSchedule.rac.memory-limit", in, fmt.Sprintf("%d scheduled leaves alive after block %d: %v", a, blk, sch), fmt.Sprintf("at most %d", maxMem))
				break
			}
		}
		if maxMem >= total {
			res.eval("GenerateCachingSchedule.rac.complete")
			if count != total {
				res.fail("GenerateCachingSchedule.rac.complete", in, fmt.Sprint(sch), fmt.Sprintf("all %d leaves: %v", total, want))
			}
		}
	}
}

func TestRAC_C15(t *testing.T) {
	res := newRacResult("C15")
	maxLeaves, maxBlocks := 6, 3
	if res.thorough() {
		maxLeaves, maxBlocks = 7, 4
	}
	n := 0
	enumHistories(maxLeaves, maxBlocks, func(h racHistory) {
		n++
		checkSchedule(res, h)
		if n%1201 == 1 {
			res.sample(map[string]interface{}{"history": h.String()})
		}
	})
	res.Exhaustive = true
	nr := 40
	if res.thorough() {
		nr = 600
	}
	rng := rand.New(rand.NewSource(res.Seed + 1515))
	for i := 0; i < nr; i++ {
		h := randomHistory(rng, 3+rng.Intn(10), 7)
		checkSchedule(res, h)
		if i == 0 {
			res.sample(map[string]interface{}{"random_history": h.String()})
		}
	}
	// a history with more blocks than fit in 16 bits: a leaf added in block 65538 and deleted in the next one
	{
		long := racHistory{{Adds: 2}}
		for i := 0; i < 65537; i++ {
			long = append(long, racBlock{})
		}
		long = append(long, racBlock{Adds: 1}, racBlock{Dels: []uint64{2}}, racBlock{Dels: []uint64{0}})
		checkSchedule(res, long)
	}
	res.Rule = fmt.Sprintf("every history with <= %d leaves / <= %d blocks (+%d seeded random histories of up to 12 blocks), (+ one history of 65 541 blocks, most of them empty, with a leaf added and deleted beyond block 65 536) recorded through AddBlockSummary with the deletion targets a prover emits (spec canonical proof targets); every memory limit from 1 to (number of schedulable leaves + 1) and the unbounded limit math.MaxInt; oracle computed from the history alone (insertion slots, add block, delete block). distinct = (history, limit) pairs", maxLeaves, maxBlocks, nr)
	res.Scope = fmt.Sprintf("histories=%d", n)
	res.write(t)
}
