//go:build verif

package utreexo

import (
	"fmt"
	"math/rand"
	"testing"
)

// checkStateAgainstSpec: the full view of the forests equals the spec's view of w.spec (C01 roots,
// C10 look-ups at every position, C02 proofs for every singleton and the full set).
func checkStateAgainstSpec(res *racResult, w *racWorld, h racHistory, tag string) {
	want := w.spec.Roots()
	chk := func(clause, impl string, roots []Hash, n uint64) {
		res.eval(clause)
		if !hashesEq(roots, want) || n != w.spec.n {
			res.fail(clause, map[string]interface{}{"history": h.String(), "state": tag, "impl": impl},
				fmt.Sprintf("n=%d roots=%s", n, shortHashes(roots)), fmt.Sprintf("n=%d roots=%s", w.spec.n, shortHashes(want)))
		}
	}
	chk("Pollard.Undo.rac.roots", "pollard", w.pol.GetRoots(), w.pol.GetNumLeaves())
	for i, m := range w.maps {
		chk("MapPollard.Undo.rac.roots", w.cfgs[i].String(), m.GetRoots(), m.GetNumLeaves())
	}
	checkLookups(res, w, h, deadHashes(w), tag)
	live := w.spec.liveHashes()
	if w.spec.n > 1 {
		for _, l := range live {
			checkProve(res, w, append(racHistory{}, h...), []Hash{l})
		}
		if len(live) > 1 {
			checkProve(res, w, h, live)
		}
	}
}

// runUndoHistory: the C06 contract on one history (see TestRAC_C06).
func runUndoHistory(res *racResult, cfgs []mapCfg, h racHistory, n *int, checkRoots bool) {
	depthAll := true
	w := newWorld(cfgs)
	var specs []*specForest
	var bds []blockData
	for k := range h {
		specs = append(specs, w.spec.clone())
		bd, err := w.prepare(h[k])
		if err != nil {
			return
		}
		bds = append(bds, bd)
		if !w.applyAll(res, h, k, checkRoots) {
			return
		}
	}
	*n++
	res.seen(h.String())
	maxDepth := len(h)
	if !depthAll {
		maxDepth = len(h) // every depth 1..len: each undo step is compared with the spec
	}
	for d := 1; d <= maxDepth; d++ {
		k := len(h) - d
		bd := bds[k]
		in := map[string]interface{}{"history": h.String(), "undo_depth": d}
		sn := snap([][]Hash{bd.delHashes, bd.proof.Proof, bd.prevRoots}, [][]uint64{bd.proof.Targets})
		var e error
		p := safely(func() { e = w.pol.Undo(uint64(len(bd.adds)), bd.proof, bd.delHashes, bd.prevRoots) })
		res.eval("Pollard.Undo.rac.accepts")
		if p != "" || e != nil {
			res.fail("Pollard.Undo.rac.accepts", in, fmt.Sprintf("panic=%q err=%v", p, e), "undone")
			return
		}
		for i, m := range w.maps {
			p := safely(func() { e = m.Undo(uint64(len(bd.adds)), bd.proof, bd.delHashes, bd.prevRoots) })
			res.eval("MapPollard.Undo.rac.accepts")
			if p != "" || e != nil {
				res.fail("MapPollard.Undo.rac.accepts", map[string]interface{}{"history": h.String(), "undo_depth": d, "config": w.cfgs[i].String()}, fmt.Sprintf("panic=%q err=%v", p, e), "undone")
				return
			}
		}
		res.eval("C17.preserves.Undo")
		if !sn.unchanged() {
			res.fail("C17.preserves.Undo", in, "argument slices modified (proof / hashes / previous roots)", "unchanged")
		}
		w.spec = specs[k].clone()
		w.stump = Stump{Roots: w.spec.Roots(), NumLeaves: w.spec.n}
		checkStateAgainstSpec(res, w, h, fmt.Sprintf("after-undo-depth-%d", d))
	}
	// for every undo depth: a world rebuilt to "h applied, d blocks undone" must evolve under DIFFERENT blocks
	// exactly as if the undone blocks had never been applied (full view, not only the roots)
	for d := 1; d <= maxDepth; d++ {
		for _, altKind := range []string{"add-only", "delete-first-and-last+add"} {
			w2 := newWorld(cfgs)
			okb := true
			for k := range h {
				okb = okb && w2.applyAll(res, h, k, false)
			}
			if !okb {
				break
			}
			for u := 1; u <= d; u++ {
				bd := bds[len(h)-u]
				safely(func() { w2.pol.Undo(uint64(len(bd.adds)), bd.proof, bd.delHashes, bd.prevRoots) })
				for _, m := range w2.maps {
					safely(func() { m.Undo(uint64(len(bd.adds)), bd.proof, bd.delHashes, bd.prevRoots) })
				}
			}
			k := len(h) - d
			w2.spec = specs[k].clone()
			w2.stump = Stump{Roots: w2.spec.Roots(), NumLeaves: w2.spec.n}
			var slots []uint64
			for s := range w2.spec.alive {
				slots = append(slots, s)
			}
			slots = sortedU64(slots)
			alt := racBlock{Adds: 2}
			if altKind != "add-only" {
				if len(slots) == 0 {
					continue
				}
				alt.Dels = []uint64{slots[0]}
				if len(slots) > 1 {
					alt.Dels = append(alt.Dels, slots[len(slots)-1])
				}
				alt.Adds = 1
			}
			h2 := append(append(racHistory{}, h[:k]...), alt)
			if w2.applyAll(res, h2, len(h2)-1, true) {
				checkStateAgainstSpec(res, w2, h2, fmt.Sprintf("history %s, %d blocks undone, then %s", h.String(), d, altKind))
			}
		}
	}
	// redo the same blocks from the oldest state reached, then one different block
	k0 := len(h) - maxDepth
	for k := k0; k < len(h); k++ {
		if !w.applyAll(res, h, k, true) {
			return
		}
	}
	checkStateAgainstSpec(res, w, h, "after-redo")
	live := w.spec.liveHashes()
	if len(live) > 0 {
		// a different block: delete the first and last live leaf, add two
		var slots []uint64
		for s := range w.spec.alive {
			slots = append(slots, s)
		}
		slots = sortedU64(slots)
		alt := racBlock{Dels: []uint64{slots[0]}, Adds: 2}
		if len(slots) > 1 {
			alt.Dels = append(alt.Dels, slots[len(slots)-1])
		}
		h2 := append(append(racHistory{}, h...), alt)
		w.applyAll(res, h2, len(h2)-1, true)
	}
}

// C06 contract (bounded):  view(Undo(Modify(x, block))) == view(x), to any depth, then redo.
func TestRAC_C06(t *testing.T) {
	res := newRacResult("C06")
	cfgs := []mapCfg{{Full: true, TotalRows: 63}, {Full: true, TotalRows: 0}, {Full: true, TotalRows: 3}, {Full: false, TotalRows: 63}, {Full: false, TotalRows: 0}}
	if res.thorough() {
		cfgs = racMapCfgs(true)
	}
	maxLeaves, maxBlocks := 6, 3
	if res.thorough() {
		maxLeaves, maxBlocks = 7, 3 // 7 / 4 does not finish within 45 minutes
	}
	n := 0
	run := func(h racHistory, depthAll bool) { runUndoHistory(res, cfgs, h, &n, false) }

	enumHistories(maxLeaves, maxBlocks, func(h racHistory) {
		run(h, true)
		if n%811 == 1 {
			res.sample(map[string]interface{}{"history": h.String(), "undo_depths": len(h)})
		}
	})
	res.Exhaustive = true
	nr := 6
	if res.thorough() {
		nr = 120
	}
	rng := rand.New(rand.NewSource(res.Seed + 606))
	for i := 0; i < nr; i++ {
		run(randomHistory(rng, 3+rng.Intn(8), 9), true)
	}
	ne := 120
	if res.thorough() {
		ne = 600
	}
	for i := 0; i < ne; i++ {
		run(emptyRootHistory(rng), true)
	}
	// light (non-full, partially remembering) forests: the C09 invariant after undoing every block newest-first
	np := 80
	if res.thorough() {
		np = 1200
	}
	n += runLongLivedClients(res, rng, np, []uint8{0, 3, 63}, true)
	res.Rule = fmt.Sprintf("(+%d seeded long-lived light clients, non-full MapPollard remembering only some leaves, undone block by block with the representation invariant of C09 after every undo) ", np) + fmt.Sprintf("every history with <= %d leaves / <= %d blocks (+%d seeded random histories, +"+fmt.Sprint(ne)+" seeded histories of 2..47 leaves in which whole trees are emptied and then merged over): apply, then undo every block newest-first; after each undo step the full view (roots, leaf count, GetLeafPosition for every hash class, GetHash at every position, Prove of every singleton and of the full set, verified by all verifiers) is compared with the spec forest of that earlier state; then the same blocks are re-applied and one different block is applied, with the C01 root check. Pollard and MapPollard %v. distinct = histories", maxLeaves, maxBlocks, nr, cfgs)
	res.Scope = fmt.Sprintf("histories=%d", n)
	res.write(t)
}
