//go:build verif

package utreexo

import (
	"fmt"
	"math/rand"
	"testing"
)

// C17 bounded part: (a) every listed entry point leaves its argument slices unchanged (the
// C17.preserves.* clauses evaluated around each call, including Undo of honest blocks, which is the
// one site the ownership proof leaves bounded); (b) results returned earlier do not change when later
// calls are made.
func TestRAC_C17(t *testing.T) {
	res := newRacResult("C17")
	cfgs := []mapCfg{{Full: true, TotalRows: 63}, {Full: true, TotalRows: 0}, {Full: false, TotalRows: 63}, {Full: false, TotalRows: 3}}
	maxLeaves, maxBlocks := 6, 3
	if res.thorough() {
		maxLeaves, maxBlocks = 7, 4
	}
	rng := rand.New(rand.NewSource(res.Seed + 1717))
	n := 0
	type kept struct {
		what string
		h    []Hash
		u    []uint64
		hc   []Hash
		uc   []uint64
	}
	run := func(h racHistory) {
		w := newWorld(cfgs)
		var keep []kept
		hold := func(what string, hs []Hash, us []uint64) {
			keep = append(keep, kept{what, hs, us, cloneHashes(hs), cloneU64(us)})
		}
		var bds []blockData
		for k := range h {
			bd, err := w.prepare(h[k])
			if err != nil {
				return
			}
			bds = append(bds, bd)
			// results handed out before the block
			hold("Pollard.GetRoots", w.pol.GetRoots(), nil)
			for i, m := range w.maps {
				hold("MapPollard.GetRoots "+w.cfgs[i].String(), m.GetRoots(), nil)
				st := m.GetStump()
				hold("MapPollard.GetStump.Roots", st.Roots, nil)
			}
			live := w.spec.liveHashes()
			if len(live) > 0 && w.spec.n > 1 {
				sub := subsetsOf(live, 0, rng, 1)[0]
				if p, e := w.pol.Prove(sub); e == nil {
					hold("Pollard.Prove", p.Proof, p.Targets)
				}
				for _, m := range w.maps {
					if p, e := m.Prove(sub); e == nil {
						hold("MapPollard.Prove", p.Proof, p.Targets)
					}
					hold("MapPollard.GetMissingPositions", nil, m.GetMissingPositions(cloneU64(bd.proof.Targets)))
				}
			}
			st2 := Stump{Roots: cloneHashes(w.stump.Roots), NumLeaves: w.stump.NumLeaves}
			if ud, e := st2.Update(bd.delHashes, bd.adds, bd.proof); e == nil {
				hold("UpdateData.NewDelHash/NewDelPos", ud.NewDelHash, ud.NewDelPos)
				hold("UpdateData.NewAddHash/NewAddPos", ud.NewAddHash, ud.NewAddPos)
				hold("UpdateData.ToDestroy", nil, ud.ToDestroy)
			}
			if !w.applyAll(res, h, k, false) {
				return
			}
		}
		// undo everything (honest blocks), newest first: arguments must stay intact
		for k := len(h) - 1; k >= 0; k-- {
			bd := bds[k]
			sn := snap([][]Hash{bd.delHashes, bd.proof.Proof, bd.prevRoots}, [][]uint64{bd.proof.Targets})
			safely(func() { w.pol.Undo(uint64(len(bd.adds)), bd.proof, bd.delHashes, bd.prevRoots) })
			res.eval("C17.preserves.Pollard.Undo")
			if !sn.unchanged() {
				res.fail("C17.preserves.Pollard.Undo", map[string]interface{}{"history": h.String(), "block": k}, "argument slices modified", "unchanged")
			}
			for i, m := range w.maps {
				safely(func() { m.Undo(uint64(len(bd.adds)), bd.proof, bd.delHashes, bd.prevRoots) })
				res.eval("C17.preserves.MapPollard.Undo")
				if !sn.unchanged() {
					res.fail("C17.preserves.MapPollard.Undo", map[string]interface{}{"history": h.String(), "block": k, "config": w.cfgs[i].String()}, "argument slices modified (proof / hashes / previous roots)", "unchanged")
				}
			}
		}
		for _, kp := range keep {
			res.eval("C17.fresh-results")
			if !hashesEq(kp.h, kp.hc) || !u64Eq(kp.u, kp.uc) {
				res.fail("C17.fresh-results", map[string]interface{}{"history": h.String(), "result": kp.what}, "a result returned earlier changed after later calls", "unchanged")
			}
		}
		n++
		res.seen(h.String())
	}
	enumHistories(maxLeaves, maxBlocks, func(h racHistory) {
		run(h)
		if n%1301 == 1 {
			res.sample(map[string]interface{}{"history": h.String(), "held_results": "GetRoots, GetStump, Prove, GetMissingPositions, UpdateData"})
		}
	})
	res.Exhaustive = true
	for i := 0; i < 10; i++ {
		run(randomHistory(rng, 3+rng.Intn(8), 8))
	}
	// the light client's entry points (Proof.Update / Proof.Undo): argument slices around every call
	enumHistories(4, 3, func(h racHistory) {
		total := 0
		for _, b := range h {
			total += b.Adds
		}
		for mask := uint64(0); mask < (uint64(1) << uint(total)); mask++ {
			res.onlyClauses("C17.", func(tmp *racResult) { runLightClient(tmp, h, mask, len(h), false) })
		}
	})
	for i := 0; i < 40; i++ {
		h := lightHistory(rng)
		res.onlyClauses("C17.", func(tmp *racResult) { runLightClient(tmp, h, rng.Uint64(), 1, false) })
	}
	res.Rule = fmt.Sprintf("every history with <= %d leaves / <= %d blocks (+10 seeded random): around every Stump.Update / Pollard.Modify / MapPollard.Modify / Undo the argument slices are snapshotted and compared; results handed out before each block (roots, stump, proofs, missing positions, update data) are compared after the whole history and its undo; the light client (Proof.Update / Proof.Undo) is run over every history with <= 4 leaves / <= 3 blocks and every remember mask (+40 seeded random larger ones) with its argument slices snapshotted around every call; implementations: Stump, Pollard, MapPollard %v. distinct = histories", maxLeaves, maxBlocks, cfgs)
	res.Scope = fmt.Sprintf("histories=%d", n)
	res.write(t)
}
