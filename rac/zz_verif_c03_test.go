//go:build verif

package utreexo

import (
	"fmt"
	"math/rand"
	"testing"
	"time"
)

type claim struct {
	targets []uint64
	hashes  []Hash
	proof   []Hash
}

func (c claim) in(h racHistory, verifier string) map[string]interface{} {
	return map[string]interface{}{"history": h.String(), "targets": c.targets, "hashes": shortHashes(c.hashes), "proof": shortHashes(c.proof), "verifier": verifier}
}

// racAliasTargets: the single targets of the current state that name a node in the numbering of a taller forest.
var racAliasTargets map[uint64]bool

// claimClass: discriminating predicate for findings (C03): what is wrong with the claim.
func claimClass(c claim) string {
	for _, p := range c.proof {
		if p == (Hash{}) {
			return "proof-contains-the-all-zero-hash"
		}
	}
	seen := map[uint64]bool{}
	for _, t := range c.targets {
		if seen[t] {
			return "targets-contain-a-repeated-position"
		}
		seen[t] = true
	}
	for _, t := range c.targets {
		if racAliasTargets[t] {
			return "target-beyond-the-forest-in-the-numbering-of-a-taller-forest"
		}
	}
	return "distinct-targets"
}

// C03 contract (bounded): accepted ==> forall i: hashes[i] == Placed[targets[i]]   (non-zero hashes)
func checkSound(res *racResult, w *racWorld, h racHistory, placed map[uint64]Hash, c claim) {
	nonzero := true
	for _, x := range c.hashes {
		if x == (Hash{}) {
			nonzero = false
		}
	}
	if !nonzero {
		return
	}
	truth := true
	for i, t := range c.targets {
		hv, ok := placed[t]
		if !ok || hv != c.hashes[i] {
			truth = false
		}
	}
	pr := Proof{Targets: c.targets, Proof: c.proof}
	judge := func(verifier string, accepted bool, pan string) {
		res.eval("Verify.rac.sound")
		if pan != "" {
			res.fail("Verify.rac.total", c.in(h, verifier), "panic "+pan, "no panic")
			return
		}
		if accepted && !truth {
			res.fail("Verify.rac.sound/"+claimClass(c), c.in(h, verifier), "accepted", "rejected: some hash is not the node at its claimed position")
		}
	}
	var err error
	pan := safely(func() { _, err = Verify(Stump{Roots: w.stump.Roots, NumLeaves: w.stump.NumLeaves}, c.hashes, pr) })
	judge("Verify", err == nil, pan)
	pan = safely(func() { err = w.pol.Verify(c.hashes, pr, false) })
	judge("Pollard.Verify", err == nil && len(c.hashes) > 0, pan)
	for i, m := range w.maps {
		pan = safely(func() { err = m.Verify(c.hashes, pr, false) })
		judge("MapPollard.Verify "+w.cfgs[i].String(), err == nil, pan)
		pan = safely(func() { err = m.VerifyPartialProof(c.targets, c.hashes, c.proof, false) })
		judge("MapPollard.VerifyPartialProof "+w.cfgs[i].String(), err == nil, pan)
	}
}

func TestRAC_C03(t *testing.T) {
	res := newRacResult("C03")
	cfgs := []mapCfg{{Full: true, TotalRows: 63}, {Full: true, TotalRows: 0}, {Full: true, TotalRows: 3}}
	maxLeaves, maxBlocks := 4, 2
	maxProof2 := 1
	if res.thorough() {
		maxLeaves, maxBlocks, maxProof2 = 5, 2, 2
	}
	rng := rand.New(rand.NewSource(res.Seed + 303))
	n := 0
	done := make(chan bool, 1)
	var cur claim
	var curH racHistory
	go func() {
		enumHistories(maxLeaves, maxBlocks, func(h racHistory) {
			w, ok := replayHistory(res, h, cfgs, false)
			if !ok || w.spec.n == 0 {
				return
			}
			n++
			curH = h
			rows := specTreeRows(w.spec.n)
			placed := w.spec.Placed(rows)
			// alphabet: every placed node hash (leaves, internal nodes, roots) and one fresh value
			var alpha []Hash
			seen := map[Hash]bool{}
			for _, hv := range placed {
				if hv != (Hash{}) && !seen[hv] {
					seen[hv] = true
					alpha = append(alpha, hv)
				}
			}
			alpha = append(alpha, Hash{0xFA, 0xCE})
			maxp := (uint64(2) << rows)
			// proof hashes may be anything, including the all-zero hash (only the claimed hashes are non-zero)
			palpha := append(append([]Hash{}, alpha...), Hash{})
			var proofs [][]Hash
			proofs = append(proofs, nil)
			for _, a := range palpha {
				proofs = append(proofs, []Hash{a})
			}
			var proofs2 [][]Hash
			for _, a := range palpha {
				for _, b := range palpha {
					proofs2 = append(proofs2, []Hash{a, b})
				}
			}
			// single targets: every position 0..2^(rows+1), and the names the same nodes have in the numbering of a
			// taller forest (3 and 63 rows): those positions do not exist in this forest
			t1s := []uint64{}
			isAlias := map[uint64]bool{}
			racAliasTargets = isAlias
			for t1 := uint64(0); t1 <= maxp; t1++ {
				t1s = append(t1s, t1)
			}
			for t1 := uint64(0); t1 < maxp; t1++ {
				for _, tr := range []uint8{3, 63} {
					if tr > rows {
						if a := translatePos(t1, rows, tr); a > maxp && !isAlias[a] {
							isAlias[a] = true
							t1s = append(t1s, a)
						}
					}
				}
			}
			for _, t1 := range t1s {
				for _, h1 := range alpha {
					ps := proofs
					ps = append(ps, proofs2...)
					for _, p := range ps {
						cur = claim{[]uint64{t1}, []Hash{h1}, p}
						res.seen(fmt.Sprintf("%d/%v", w.spec.n, cur))
						checkSound(res, w, h, placed, cur)
					}
				}
			}
			for t1 := uint64(0); t1 <= maxp; t1++ {
				for t2 := uint64(0); t2 <= maxp; t2++ {
					for _, h1 := range alpha {
						for _, h2 := range alpha {
							ps := proofs
							if maxProof2 >= 2 {
								ps = append(append([][]Hash{}, proofs...), proofs2...)
							}
							for _, p := range ps {
								cur = claim{[]uint64{t1, t2}, []Hash{h1, h2}, p}
								checkSound(res, w, h, placed, cur)
							}
						}
					}
				}
			}
			if n%11 == 1 && len(alpha) >= 2 {
				res.sample(map[string]interface{}{"history": h.String(), "positions": maxp + 1, "hash_alphabet": len(alpha), "example_claim": claim{[]uint64{0, 1}, alpha[:2], alpha[:1]}.in(h, "all")})
			}
		})
		// structured mutations of honest proofs on larger random forests
		nr := 30
		if res.thorough() {
			nr = 400
		}
		for i := 0; i < nr; i++ {
			h := randomHistory(rng, 3+rng.Intn(8), 9)
			w, ok := replayHistory(res, h, cfgs, true)
			if !ok || w.spec.n < 2 {
				continue
			}
			live := w.spec.liveHashes()
			if len(live) == 0 {
				continue
			}
			curH = h
			rows := specTreeRows(w.spec.n)
			placed := w.spec.Placed(rows)
			for _, sub := range subsetsOf(live, 3, rng, 6) {
				pr, err := w.spec.CanonProof(sub)
				if err != nil {
					continue
				}
				base := claim{pr.Targets, sub, pr.Proof}
				muts := []claim{base}
				if len(base.targets) > 1 {
					m := claim{cloneU64(base.targets), cloneHashes(base.hashes), cloneHashes(base.proof)}
					m.hashes[0], m.hashes[1] = m.hashes[1], m.hashes[0] // swap hashes only
					muts = append(muts, m)
					m2 := claim{cloneU64(base.targets), cloneHashes(base.hashes), cloneHashes(base.proof)}
					m2.targets[1] = m2.targets[0] // duplicate target
					muts = append(muts, m2)
				}
				m3 := claim{cloneU64(base.targets), cloneHashes(base.hashes), cloneHashes(base.proof)}
				m3.targets[0] ^= 1 // re-target to the sibling
				muts = append(muts, m3)
				if len(base.proof) > 0 {
					m4 := claim{cloneU64(base.targets), cloneHashes(base.hashes), cloneHashes(base.proof)}
					m4.proof[rng.Intn(len(m4.proof))] = Hash{0xBA, 0xD1}
					muts = append(muts, m4)
					m5 := claim{cloneU64(base.targets), cloneHashes(base.hashes), cloneHashes(base.proof[:len(base.proof)-1])}
					muts = append(muts, m5)
				}
				m6 := claim{cloneU64(base.targets), cloneHashes(base.hashes), cloneHashes(base.proof)}
				m6.hashes[0] = w.spec.Roots()[0] // claim a root hash at a leaf position
				muts = append(muts, m6)
				m7 := claim{cloneU64(base.targets), cloneHashes(base.hashes), cloneHashes(base.proof)}
				m7.targets[0] = (uint64(2) << rows) + uint64(rng.Intn(5)) // non-existent position
				muts = append(muts, m7)
				for _, m := range muts {
					cur = m
					res.seen(fmt.Sprintf("%s/%v", h.String(), m))
					checkSound(res, w, h, placed, m)
				}
			}
		}
		done <- true
	}()
	budget := 10 * time.Minute
	if res.thorough() {
		budget = 50 * time.Minute
	}
	select {
	case <-done:
		res.Exhaustive = true
	case <-time.After(budget):
		res.eval("Verify.rac.returns")
		res.fail("Verify.rac.returns", cur.in(curH, "any"), "the bounded run did not finish in time (a verifier call may not return)", "returns")
	}
	res.Rule = fmt.Sprintf("every reachable state of histories with <= %d leaves / <= %d blocks: every claim with 1 target (positions 0..2^(rows+1) and the positions that name the same nodes in the numbering of a 3-row and a 63-row forest, hashes from {every node/root hash, one fresh}, proofs of length 0..2 over the same alphabet) and every claim with 2 targets WITH repetition and nesting (proof length 0..%d); plus structured mutations (swap, duplicate, re-target, corrupt, truncate, re-root, non-existent position) of honest proofs on seeded random forests; verifiers: Verify, Pollard.Verify, MapPollard.Verify, VerifyPartialProof; oracle: specForest.Placed. distinct = claims", maxLeaves, maxBlocks, maxProof2)
	res.Scope = fmt.Sprintf("states=%d", n)
	res.write(t)
}
