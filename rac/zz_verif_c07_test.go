//go:build verif

package utreexo

import (
	"math/rand"
	"fmt"
	"sort"
	"testing"
)

// lightClient: holds only the verifier state, a cached proof and its leaf hashes.
type lightClient struct {
	stump  Stump
	proof  Proof
	hashes []Hash
}

type lcBlock struct {
	bd        blockData
	ud        UpdateData
	remembers []uint32
	numLeaves uint64 // after the block
}

func hashSet(hs []Hash) map[Hash]bool {
	m := map[Hash]bool{}
	for _, h := range hs {
		m[h] = true
	}
	return m
}

func setString(m map[Hash]bool) string {
	var s []string
	for h := range m {
		s = append(s, fmt.Sprintf("%x", h[:4]))
	}
	sort.Strings(s)
	return fmt.Sprint(s)
}

// checkCached: the cached proof is complete and canonical for exactly the expected leaves (C07/C08).
func checkCached(res *racResult, prefix string, lc *lightClient, spec *specForest, want map[Hash]bool, in map[string]interface{}, class string) bool {
	ok := true
	res.eval(prefix + ".rac.set" + class)
	got := hashSet(lc.hashes)
	if setString(got) != setString(want) || len(lc.hashes) != len(got) {
		res.fail(prefix+".rac.set"+class, in, fmt.Sprintf("holds %s (len %d)", setString(got), len(lc.hashes)), "holds "+setString(want))
		ok = false
	}
	if len(lc.hashes) != len(lc.proof.Targets) {
		res.eval(prefix + ".rac.parallel")
		res.fail(prefix+".rac.parallel", in, fmt.Sprintf("%d hashes, %d targets", len(lc.hashes), len(lc.proof.Targets)), "parallel")
		return false
	}
	// canonical for the leaves it actually holds (only meaningful when they are live leaves)
	allLive := true
	lp := spec.LeafPositions(specTreeRows(spec.n))
	for _, h := range lc.hashes {
		if _, live := lp[h]; !live {
			allLive = false
		}
	}
	if allLive {
		cp, err := spec.CanonProof(lc.hashes)
		res.eval(prefix + ".rac.canonical" + class)
		if err != nil || !u64Eq(cp.Targets, lc.proof.Targets) || !hashesEq(cp.Proof, lc.proof.Proof) {
			if spec.n == 1 && len(lc.hashes) == 1 && len(lc.proof.Proof) == 0 && u64Eq(lc.proof.Targets, []uint64{0}) {
				// single leaf forest
			} else {
				res.fail(prefix+".rac.canonical"+class, in, fmt.Sprintf("targets=%v proof=%s", lc.proof.Targets, shortHashes(lc.proof.Proof)), fmt.Sprintf("targets=%v proof=%s", cp.Targets, shortHashes(cp.Proof)))
				ok = false
			}
		}
	}
	if len(lc.hashes) > 0 {
		var verr error
		pan := safely(func() { _, verr = Verify(Stump{Roots: cloneHashes(lc.stump.Roots), NumLeaves: lc.stump.NumLeaves}, lc.hashes, lc.proof) })
		res.eval(prefix + ".rac.verifies" + class)
		if pan != "" || verr != nil {
			res.fail(prefix+".rac.verifies"+class, in, fmt.Sprintf("panic=%q err=%v", pan, verr), "verifies against the verifier state")
			ok = false
		}
	}
	return ok
}

// runLightClient drives a client through h remembering the leaves whose slot bit is set in mask.
// With undoDepth > 0 the last undoDepth blocks are undone afterwards (C08).
func runLightClient(res *racResult, h racHistory, mask uint64, undoDepth int, redo bool) {
	spec := newSpecForest()
	lc := &lightClient{}
	var specs []*specForest
	var stumps []Stump
	var held []map[Hash]bool
	var blocks []lcBlock
	want := map[Hash]bool{}
	for k, b := range h {
		w := &racWorld{spec: spec}
		bd, err := w.prepare(b)
		if err != nil {
			return
		}
		specs = append(specs, spec.clone())
		stumps = append(stumps, Stump{Roots: cloneHashes(lc.stump.Roots), NumLeaves: lc.stump.NumLeaves})
		cp := map[Hash]bool{}
		for x := range want {
			cp[x] = true
		}
		held = append(held, cp)
		var remembers []uint32
		for i := range bd.adds {
			if mask&(1<<(spec.n+uint64(i))) != 0 {
				remembers = append(remembers, uint32(i))
			}
		}
		in := map[string]interface{}{"history": h.String(), "block": k, "remember_mask": mask}
		var ud UpdateData
		var uerr error
		pan := safely(func() { ud, uerr = lc.stump.Update(bd.delHashes, bd.adds, bd.proof) })
		if pan != "" || uerr != nil {
			res.eval("Stump.Update.rac.accepts")
			res.fail("Stump.Update.rac.accepts", in, fmt.Sprintf("panic=%q err=%v", pan, uerr), "accepted")
			return
		}
		sn := snap([][]Hash{bd.adds, ud.NewDelHash, ud.NewAddHash}, [][]uint64{bd.proof.Targets, ud.ToDestroy, ud.NewDelPos, ud.NewAddPos})
		oldHashes := lc.hashes
		oldCopy := cloneHashes(oldHashes)
		var nh []Hash
		pan = safely(func() { nh, uerr = lc.proof.Update(lc.hashes, bd.adds, bd.proof.Targets, remembers, ud) })
		res.eval("Proof.Update.rac.total")
		if pan != "" || uerr != nil {
			res.fail("Proof.Update.rac.total", in, fmt.Sprintf("panic=%q err=%v", pan, uerr), "no panic, no error")
			return
		}
		res.eval("C17.preserves.Proof.Update")
		if !sn.unchanged() || !hashesEq(oldHashes, oldCopy) {
			res.fail("C17.preserves.Proof.Update", in, "argument slices modified", "unchanged")
		}
		lc.hashes = nh
		spec.Apply(bd.delHashes, bd.adds)
		for _, d := range bd.delHashes {
			delete(want, d)
		}
		loneLast := false
		for _, r := range remembers {
			want[bd.adds[r]] = true
		}
		_ = loneLast
		blocks = append(blocks, lcBlock{bd, ud, remembers, spec.n})
		if !checkCached(res, "Proof.Update", lc, spec, want, in, "") {
			return
		}
	}
	if undoDepth == 0 {
		return
	}
	if undoDepth > len(h) {
		undoDepth = len(h)
	}
	for d := 1; d <= undoDepth; d++ {
		k := len(h) - d
		blk := blocks[k]
		in := map[string]interface{}{"history": h.String(), "undo_depth": d, "remember_mask": mask}
		var nh []Hash
		var uerr error
		sn := snap([][]Hash{blk.bd.delHashes, blk.bd.proof.Proof}, [][]uint64{blk.bd.proof.Targets, blk.ud.ToDestroy})
		pan := safely(func() {
			nh, uerr = lc.proof.Undo(uint64(len(blk.bd.adds)), blk.numLeaves, blk.bd.proof.Targets, blk.bd.delHashes, lc.hashes, blk.ud.ToDestroy, blk.bd.proof)
		})
		res.eval("Proof.Undo.rac.total")
		if pan != "" || uerr != nil {
			res.fail("Proof.Undo.rac.total", in, fmt.Sprintf("panic=%q err=%v", pan, uerr), "no panic, no error")
			return
		}
		res.eval("C17.preserves.Proof.Undo")
		if !sn.unchanged() {
			res.fail("C17.preserves.Proof.Undo", in, "argument slices modified", "unchanged")
		}
		lc.hashes = nh
		lc.stump = stumps[k]
		spec = specs[k].clone()
		// exactly the held leaves that already existed before the block, minus those the block deleted
		// (documented as not restored)
		exp := map[Hash]bool{}
		for x := range held[k] {
			exp[x] = true
		}
		for _, dh := range blk.bd.delHashes {
			delete(exp, dh)
		}
		// the client's notion of "held before" must also drop what deeper undone blocks deleted: held[k] is
		// the set held when block k was applied, and deletions of blocks > k were not re-cached
		for j := k + 1; j < len(h); j++ {
			for _, dh := range blocks[j].bd.delHashes {
				delete(exp, dh)
			}
		}
		class := ""
		if spec.n == 0 {
			class = "/pre-block-forest-empty"
		} else if len(blk.ud.ToDestroy) > 0 {
			class = "/undone-block-destroyed-an-empty-root"
		}
		if !checkCached(res, "Proof.Undo", lc, spec, exp, in, class) {
			return
		}
		want = exp
	}
	if !redo {
		return
	}
	// redo the undone blocks
	for k := len(h) - undoDepth; k < len(h); k++ {
		blk := blocks[k]
		in := map[string]interface{}{"history": h.String(), "redo_block": k, "remember_mask": mask}
		var ud UpdateData
		var uerr error
		pan := safely(func() { ud, uerr = lc.stump.Update(blk.bd.delHashes, blk.bd.adds, blk.bd.proof) })
		if pan != "" || uerr != nil {
			return
		}
		var nh []Hash
		pan = safely(func() { nh, uerr = lc.proof.Update(lc.hashes, blk.bd.adds, blk.bd.proof.Targets, blk.remembers, ud) })
		res.eval("Proof.Update.rac.total")
		if pan != "" || uerr != nil {
			res.fail("Proof.Update.rac.total", in, fmt.Sprintf("panic=%q err=%v", pan, uerr), "no panic, no error")
			return
		}
		lc.hashes = nh
		spec.Apply(blk.bd.delHashes, blk.bd.adds)
		for _, dh := range blk.bd.delHashes {
			delete(want, dh)
		}
		for _, r := range blk.remembers {
			want[blk.bd.adds[r]] = true
		}
		if !checkCached(res, "Proof.Update", lc, spec, want, in, "/redo") {
			return
		}
	}
}

// lightHistory: a random history for the light client: the first block adds 4..16 leaves, later blocks delete
// single leaves, sibling pairs and whole subtrees (so that survivors move up and are deleted on higher rows
// later) and add a few.
func lightHistory(rng *rand.Rand) racHistory {
	if rng.Intn(3) == 0 {
		return randomHistory(rng, 2+rng.Intn(4), 6)
	}
	n := 4 + rng.Intn(13)
	h := racHistory{{Adds: n}}
	live := map[uint64]bool{}
	for i := 0; i < n; i++ {
		live[uint64(i)] = true
	}
	for b := 0; b < 1+rng.Intn(4); b++ {
		var blk racBlock
		mode := rng.Intn(4)
		for s := uint64(0); s < uint64(n); s++ {
			if !live[s] {
				continue
			}
			del := false
			switch mode {
			case 0:
				del = rng.Intn(6) == 0
			case 1:
				del = rng.Intn(3) == 0
			case 2:
				del = (s/2)%3 == uint64(b%3) && rng.Intn(4) != 0 // sibling pairs
			case 3:
				del = (s/4)%2 == uint64(b%2) && rng.Intn(5) != 0 // subtrees
			}
			if del {
				blk.Dels = append(blk.Dels, s)
				delete(live, s)
			}
		}
		blk.Adds = rng.Intn(4)
		if len(blk.Dels) == 0 && blk.Adds == 0 {
			blk.Adds = 1
		}
		for k := 0; k < blk.Adds; k++ {
			live[uint64(n+k)] = true
		}
		n += blk.Adds
		h = append(h, blk)
	}
	return h
}

// mixedRowHistory: n leaves; a block that deletes one leaf of several sibling pairs (the survivors move up a row);
// then a block whose targets lie on different rows: complete sibling pairs together with moved-up survivors.
func mixedRowHistory(rng *rand.Rand) racHistory {
	n := 8 + rng.Intn(25)
	h := racHistory{{Adds: n}}
	live := map[uint64]bool{}
	for i := 0; i < n; i++ {
		live[uint64(i)] = true
	}
	var b2 racBlock
	movedUp := []uint64{}
	for p := 0; p+1 < n; p += 2 {
		if rng.Intn(3) == 0 {
			d := uint64(p + rng.Intn(2))
			b2.Dels = append(b2.Dels, d)
			delete(live, d)
			movedUp = append(movedUp, uint64(p)+1-(d-uint64(p)))
		}
	}
	if len(b2.Dels) == 0 {
		b2.Dels = []uint64{uint64(n - 2)}
		delete(live, uint64(n-2))
		movedUp = append(movedUp, uint64(n-1))
	}
	b2.Adds = rng.Intn(2)
	if b2.Adds == 1 {
		live[uint64(n)] = true
	}
	h = append(h, b2)
	var b3 racBlock
	for p := 0; p+1 < n; p += 2 {
		if live[uint64(p)] && live[uint64(p+1)] && rng.Intn(3) == 0 {
			b3.Dels = append(b3.Dels, uint64(p), uint64(p+1))
			delete(live, uint64(p))
			delete(live, uint64(p+1))
		}
	}
	for _, m := range movedUp {
		if live[m] && rng.Intn(2) == 0 {
			b3.Dels = append(b3.Dels, m)
			delete(live, m)
		}
	}
	sort.Slice(b3.Dels, func(i, j int) bool { return b3.Dels[i] < b3.Dels[j] })
	b3.Adds = rng.Intn(3)
	if len(b3.Dels) == 0 && b3.Adds == 0 {
		b3.Adds = 1
	}
	h = append(h, b3)
	return h
}

// lightMasks: remember masks of different densities.
func lightMasks(rng *rand.Rand) []uint64 {
	return []uint64{rng.Uint64(), rng.Uint64() & rng.Uint64(), rng.Uint64() & rng.Uint64() & rng.Uint64(), rng.Uint64() | rng.Uint64()}
}

func TestRAC_C07(t *testing.T) {
	res := newRacResult("C07")
	maxLeaves, maxBlocks := 5, 3
	if res.thorough() {
		maxLeaves, maxBlocks = 6, 4
	}
	n := 0
	enumHistories(maxLeaves, maxBlocks, func(h racHistory) {
		total := 0
		for _, b := range h {
			total += b.Adds
		}
		for mask := uint64(0); mask < (uint64(1) << uint(total)); mask++ {
			n++
			res.seen(fmt.Sprintf("%s/%d", h.String(), mask))
			runLightClient(res, h, mask, 0, false)
		}
		if n%2003 < 8 && len(h) == maxBlocks {
			res.sample(map[string]interface{}{"history": h.String(), "remember_masks": uint64(1) << uint(total)})
		}
	})
	res.Exhaustive = true
	nr := 150
	if res.thorough() {
		nr = 3000
	}
	rng := rand.New(rand.NewSource(res.Seed + 707))
	for i := 0; i < nr; i++ {
		h := lightHistory(rng)
		if i%3 == 2 {
			h = emptyRootHistory(rng) // whole trees emptied, then additions merging over one or several empty roots
		} else if i%3 == 1 {
			h = mixedRowHistory(rng) // a block with targets on different rows
		}
		for _, mask := range lightMasks(rng) {
			n++
			res.seen(fmt.Sprintf("%s/%d", h.String(), mask))
			runLightClient(res, h, mask, 0, false)
		}
	}
	// a large forest: 65 536 leaves in one block (leaf 0, 1 and 40 remembered), then deletions next to them and a few
	// additions crossing the power of two, then a block with 40 additions remembering the 36th
	{
		big := racHistory{{Adds: 65536}, {Dels: []uint64{1, 41}, Adds: 3}, {Dels: []uint64{65536}, Adds: 40}}
		n++
		res.seen("big/" + big.String())
		runLightClient(res, big, 1|1<<1|1<<40, 0, false)
	}
	// adversarial leaf values (see TestRAC_ADV): every history with <= 5 leaves / <= 3 blocks, every mask
	for _, a := range advAssignments() {
		racLeaf = a.leaf
		enumHistories(5, 3, func(h racHistory) {
			total := 0
			for _, b := range h {
				total += b.Adds
			}
			for mask := uint64(0); mask < (uint64(1) << uint(total)); mask++ {
				n++
				res.tagged("/leaf-values="+a.name, func(tmp *racResult) { runLightClient(tmp, h, mask, 0, false) })
			}
		})
	}
	racLeaf = specLeaf
	res.Rule = fmt.Sprintf("(+%d seeded random histories of up to 47 leaves / 2..5 blocks (one third empty whole trees and then add over the empty roots, one third have a block whose targets lie on different rows: sibling pairs together with leaves that moved up) with 4 remember masks each; + every history with <= 5 leaves / <= 3 blocks and every mask under the 4 adversarial value assignments of TestRAC_ADV) ", nr) + fmt.Sprintf("every history with <= %d leaves / <= %d blocks and, for each, every subset of added leaves to remember (bit s of the mask = remember the leaf of insertion slot s), from the empty cached proof; after every block: held set, parallel positions, canonical proof hashes (specForest.CanonProof) and acceptance by Verify. distinct = (history, remember mask) pairs", maxLeaves, maxBlocks)
	res.Scope = fmt.Sprintf("client_runs=%d", n)
	res.write(t)
}

func TestRAC_C08(t *testing.T) {
	res := newRacResult("C08")
	maxLeaves, maxBlocks := 5, 3
	if res.thorough() {
		maxLeaves, maxBlocks = 6, 4
	}
	n := 0
	enumHistories(maxLeaves, maxBlocks, func(h racHistory) {
		total := 0
		for _, b := range h {
			total += b.Adds
		}
		for mask := uint64(0); mask < (uint64(1) << uint(total)); mask++ {
			for d := 1; d <= len(h); d++ {
				n++
				res.seen(fmt.Sprintf("%s/%d/%d", h.String(), mask, d))
				runLightClient(res, h, mask, d, true)
			}
		}
		if n%4001 < 8 && len(h) == maxBlocks {
			res.sample(map[string]interface{}{"history": h.String(), "undo_depths": len(h)})
		}
	})
	res.Exhaustive = true
	nr := 150
	if res.thorough() {
		nr = 3000
	}
	rng := rand.New(rand.NewSource(res.Seed + 808))
	for i := 0; i < nr; i++ {
		h := lightHistory(rng)
		if i%3 == 2 {
			h = emptyRootHistory(rng)
		} else if i%3 == 1 {
			h = mixedRowHistory(rng)
		}
		for _, mask := range lightMasks(rng) {
			for d := 1; d <= len(h) && d <= 2; d++ {
				n++
				res.seen(fmt.Sprintf("%s/%d/%d", h.String(), mask, d))
				runLightClient(res, h, mask, d, true)
			}
		}
	}
	res.Rule = fmt.Sprintf("(+%d seeded random histories of up to 40 leaves / 2..5 blocks with 4 remember masks each, undo depths 1..2) ", nr) + fmt.Sprintf("every history with <= %d leaves / <= %d blocks, every remember mask, every undo depth 1..len newest-first, then redo of the undone blocks; after each undo step: held set == (held before the block) minus (deleted by it), canonical proof against the pre-block state, acceptance by Verify. distinct = (history, mask, depth) triples", maxLeaves, maxBlocks)
	res.Scope = fmt.Sprintf("client_runs=%d", n)
	res.write(t)
}
