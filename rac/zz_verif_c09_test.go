//go:build verif

package utreexo

import (
	"fmt"
	"math/rand"
	"sort"
	"testing"
)

// partialDriver drives a non-full MapPollard and remembers which leaves it was asked to keep.
type partialDriver struct {
	m    *MapPollard
	spec *specForest
	R    map[Hash]bool
	prev []map[Hash]bool
	bds  []blockData
}

func newPartial(rows uint8) *partialDriver {
	m := NewMapPollard(false)
	m.TotalRows = rows
	return &partialDriver{m: &m, spec: newSpecForest(), R: map[Hash]bool{}}
}

func (d *partialDriver) in(h racHistory, extra ...interface{}) map[string]interface{} {
	mm := map[string]interface{}{"history": h.String(), "rows": d.m.TotalRows}
	for i := 0; i+1 < len(extra); i += 2 {
		mm[fmt.Sprint(extra[i])] = extra[i+1]
	}
	return mm
}

// applyBlock: deletions are first verified with remember (so the forest knows them), then the block is applied;
// added leaf k is remembered iff bit (slot) of mask is set.
func (d *partialDriver) applyBlock(res *racResult, h racHistory, k int, mask uint64) bool {
	w := &racWorld{spec: d.spec}
	bd, err := w.prepare(h[k])
	if err != nil {
		return false
	}
	cp := map[Hash]bool{}
	for x := range d.R {
		cp[x] = true
	}
	if len(bd.delHashes) > 0 {
		var verr error
		pan := safely(func() { verr = d.m.Verify(bd.delHashes, bd.proof, true) })
		res.eval("MapPollard.Verify.rac.accepts-canonical")
		if pan != "" || verr != nil {
			res.fail("MapPollard.Verify.rac.accepts-canonical", d.in(h, "block", k, "mask", mask), fmt.Sprintf("panic=%q err=%v", pan, verr), "accepted")
			return false
		}
		for _, x := range bd.delHashes {
			cp[x] = true
		}
	}
	d.prev = append(d.prev, cp)
	leaves := make([]Leaf, len(bd.adds))
	for i, a := range bd.adds {
		leaves[i] = Leaf{Hash: a, Remember: mask&(1<<(d.spec.n+uint64(i))) != 0}
	}
	bd.leaves = leaves
	d.bds = append(d.bds, bd)
	var merr error
	pan := safely(func() { merr = d.m.Modify(leaves, bd.delHashes, bd.proof) })
	res.eval("MapPollard.Modify.rac.accepts")
	if pan != "" || merr != nil {
		res.fail("MapPollard.Modify.rac.accepts", d.in(h, "block", k, "mask", mask), fmt.Sprintf("panic=%q err=%v", pan, merr), "applied")
		return false
	}
	for _, x := range bd.delHashes {
		delete(d.R, x)
	}
	for _, l := range leaves {
		if l.Remember {
			d.R[l.Hash] = true
		}
	}
	d.spec.Apply(bd.delHashes, bd.adds)
	return true
}

// checkInvariant: wfMap(partial) of DESIGN section 5 C09.
func (d *partialDriver) checkInvariant(res *racResult, h racHistory, tag string, strictNeeded bool) bool {
	rows := d.m.TotalRows
	placed := d.spec.Placed(rows)
	lp := d.spec.LeafPositions(rows)
	ok := true
	// roots and leaf count
	res.eval("MapPollard.partial.rac.roots")
	if !hashesEq(d.m.GetRoots(), d.spec.Roots()) || d.m.GetNumLeaves() != d.spec.n {
		res.fail("MapPollard.partial.rac.roots", d.in(h, "state", tag), fmt.Sprintf("n=%d %s", d.m.GetNumLeaves(), shortHashes(d.m.GetRoots())), fmt.Sprintf("n=%d %s", d.spec.n, shortHashes(d.spec.Roots())))
		return false
	}
	// (i) every stored hash is the true hash of the node there
	stored := map[uint64]bool{}
	d.m.Nodes.ForEach(func(pos uint64, l Leaf) error {
		stored[pos] = true
		res.eval("MapPollard.partial.rac.true-hashes")
		if want, exists := placed[pos]; !exists || want != l.Hash {
			res.fail("MapPollard.partial.rac.true-hashes", d.in(h, "state", tag, "pos", pos), fmt.Sprintf("%x (node exists=%v)", l.Hash[:4], exists), fmt.Sprintf("%x", want[:4]))
			ok = false
		}
		return nil
	})
	// (i') every cached entry names a live leaf at its true position (the forest must not claim leaves that are gone)
	d.m.CachedLeaves.ForEach(func(hv Hash, pos uint64) error {
		res.eval("MapPollard.partial.rac.cached-are-live")
		if want, live := lp[hv]; !live || want != pos {
			res.fail("MapPollard.partial.rac.cached-are-live", d.in(h, "state", tag, "cached", fmt.Sprintf("%x", hv[:4])), fmt.Sprintf("cached at %d", pos), fmt.Sprintf("live=%v position=%d", live, want))
			ok = false
		}
		return nil
	})
	// (ii) every remembered leaf is cached at its position and provable with the canonical proof
	var rs []Hash
	for x := range d.R {
		rs = append(rs, x)
	}
	sort.Slice(rs, func(i, j int) bool { return lp[rs[i]] < lp[rs[j]] })
	for _, x := range rs {
		pos, found := d.m.CachedLeaves.Get(x)
		res.eval("MapPollard.partial.rac.remembered")
		if !found || pos != lp[x] {
			res.fail("MapPollard.partial.rac.remembered", d.in(h, "state", tag, "leaf", fmt.Sprintf("%x", x[:4])), fmt.Sprintf("(%d,%v)", pos, found), fmt.Sprintf("(%d,true)", lp[x]))
			ok = false
		}
	}
	if ok && d.spec.n > 1 {
		reqs := [][]Hash{}
		for _, x := range rs {
			reqs = append(reqs, []Hash{x})
		}
		if len(rs) > 1 {
			reqs = append(reqs, rs)
		}
		for _, req := range reqs {
			want, _ := d.spec.CanonProof(req)
			var got Proof
			var perr error
			pan := safely(func() { got, perr = d.m.Prove(req) })
			res.eval("MapPollard.partial.rac.provable")
			if pan != "" || perr != nil || !u64Eq(got.Targets, want.Targets) || !hashesEq(got.Proof, want.Proof) {
				res.fail("MapPollard.partial.rac.provable", d.in(h, "state", tag, "request", shortHashes(req)), fmt.Sprintf("panic=%q err=%v targets=%v proof=%s", pan, perr, got.Targets, shortHashes(got.Proof)),
					fmt.Sprintf("targets=%v proof=%s", want.Targets, shortHashes(want.Proof)))
				ok = false
			}
		}
	}
	// (iii) nothing beyond the roots, the remembered leaves and the positions on their proof paths
	if strictNeeded {
		allowed := d.spec.rootPositions(rows)
		for _, x := range rs {
			allowed[lp[x]] = true
			for _, q := range d.spec.CanonProofPositions([]uint64{lp[x]}, rows) {
				allowed[q] = true
			}
			for q := range d.spec.pathNodes([]uint64{lp[x]}, rows) {
				allowed[q] = true
			}
		}
		var extra []uint64
		for pos := range stored {
			if !allowed[pos] {
				extra = append(extra, pos)
			}
		}
		res.eval("MapPollard.partial.rac.nothing-unneeded")
		if len(extra) > 0 {
			res.fail("MapPollard.partial.rac.nothing-unneeded", d.in(h, "state", tag, "remembered", shortHashes(rs)), fmt.Sprintf("also stores positions %v", sortedU64(extra)), "only roots, remembered leaves and the positions on their proof paths")
			ok = false
		}
	}
	return ok
}

func buildPartial(res *racResult, h racHistory, mask uint64, rows uint8, upto int, check bool) *partialDriver {
	d := newPartial(rows)
	for k := 0; k < upto; k++ {
		if !d.applyBlock(res, h, k, mask) {
			return nil
		}
		if check && k == upto-1 {
			if !d.checkInvariant(res, h, fmt.Sprintf("after-block-%d", k), true) {
				return nil
			}
		}
	}
	return d
}

// runLongLivedClients: seeded long-lived light clients (non-full MapPollard) on forests of up to ~30 leaves;
// returns the number of runs.  allDepths: undo every block newest-first (C06), otherwise only the last one.
func runLongLivedClients(res *racResult, rng *rand.Rand, nl int, rowsSet []uint8, allDepths bool) int {
	n := 0
	// long-lived light clients on larger forests: seeded histories of up to ~30 leaves, random Remember flags, and
	// between blocks the client asks to remember further live leaves through Verify(remember) / Ingest (including
	// leaves that are roots at that moment); the invariant after every step, and after undoing the last block.
	for i := 0; i < nl; i++ {
		h := lightHistory(rng)
		rows := rowsSet[rng.Intn(len(rowsSet))]
		mask := rng.Uint64() & rng.Uint64()
		if rng.Intn(4) == 0 {
			mask = rng.Uint64()
		}
		n++
		res.seen(fmt.Sprintf("long/%s/%d/%d", h.String(), mask, rows))
		d := newPartial(rows)
		var specs []*specForest
		okRun := true
		for k := range h {
			specs = append(specs, d.spec.clone())
			if !d.applyBlock(res, h, k, mask) {
				okRun = false
				break
			}
			if !d.checkInvariant(res, h, fmt.Sprintf("long-lived after-block-%d", k), true) {
				okRun = false
				break
			}
			if k == len(h)-1 || rng.Intn(3) == 0 {
				continue
			}
			// sometimes forget one or two remembered leaves again (Prune): the others stay provable
			if len(d.R) > 1 && rng.Intn(3) == 0 {
				var rs []Hash
				for x := range d.R {
					rs = append(rs, x)
				}
				sort.Slice(rs, func(i, j int) bool { return fmt.Sprint(rs[i]) < fmt.Sprint(rs[j]) })
				P := []Hash{rs[rng.Intn(len(rs))]}
				if len(rs) > 2 && rng.Intn(2) == 0 {
					if x := rs[rng.Intn(len(rs))]; x != P[0] {
						P = append(P, x)
					}
				}
				var perr error
				pan := safely(func() { perr = d.m.Prune(P) })
				res.eval("MapPollard.Prune.rac.total")
				if pan != "" || perr != nil {
					res.fail("MapPollard.Prune.rac.total", d.in(h, "mask", mask, "after_block", k, "prune", shortHashes(P)), fmt.Sprintf("panic=%q err=%v", pan, perr), "pruned")
					okRun = false
					break
				}
				for _, x := range P {
					delete(d.R, x)
					// forgotten for good: an undo to an earlier state does not bring the cache entry back
					for _, pv := range d.prev {
						delete(pv, x)
					}
				}
				if !d.checkInvariant(res, h, fmt.Sprintf("long-lived after-block-%d after-prune %s", k, shortHashes(P)), true) {
					okRun = false
					break
				}
			}
			// remember up to 3 more live leaves, preferring the last leaf (a root of its own when n is odd)
			var cand []Hash
			for _, x := range d.spec.liveHashes() {
				if !d.R[x] {
					cand = append(cand, x)
				}
			}
			if len(cand) == 0 || d.spec.n < 2 {
				continue
			}
			S := []Hash{cand[len(cand)-1]}
			for j := 0; j < 2 && len(cand) > 1; j++ {
				if x := cand[rng.Intn(len(cand)-1)]; x != S[0] && (len(S) < 2 || x != S[1]) {
					S = append(S, x)
				}
			}
			pr, _ := d.spec.CanonProof(S)
			mode := []string{"verify-remember", "ingest"}[rng.Intn(2)]
			var e error
			pan := safely(func() {
				if mode == "ingest" {
					e = d.m.Ingest(S, pr)
				} else {
					e = d.m.Verify(S, pr, true)
				}
			})
			res.eval("MapPollard." + mode + ".rac.total")
			if pan != "" || e != nil {
				res.fail("MapPollard."+mode+".rac.total", d.in(h, "mask", mask, "after_block", k, "subset", shortHashes(S)), fmt.Sprintf("panic=%q err=%v", pan, e), "ok")
				okRun = false
				break
			}
			for _, x := range S {
				d.R[x] = true
			}
			if !d.checkInvariant(res, h, fmt.Sprintf("long-lived after-block-%d after-%s %s", k, mode, shortHashes(S)), true) {
				okRun = false
				break
			}
		}
		if !okRun || len(h) == 0 {
			continue
		}
		for k := len(h) - 1; k >= 0; k-- {
			bd := d.bds[k]
			var e error
			pan := safely(func() { e = d.m.Undo(uint64(len(bd.adds)), bd.proof, bd.delHashes, bd.prevRoots) })
			res.eval("MapPollard.Undo.rac.accepts")
			if pan != "" || e != nil {
				res.fail("MapPollard.Undo.rac.accepts", d.in(h, "mask", mask, "run", "long-lived", "undo_block", k), fmt.Sprintf("panic=%q err=%v", pan, e), "undone")
				break
			}
			d.spec = specs[k]
			d.R = d.prev[k]
			if !d.checkInvariant(res, h, fmt.Sprintf("long-lived after-undo-of-block-%d", k), false) || !allDepths {
				break
			}
		}
	}
	return n
}

func TestRAC_C09(t *testing.T) {
	res := newRacResult("C09")
	maxLeaves, maxBlocks := 5, 3
	rowsSet := []uint8{0, 3, 63}
	if res.thorough() {
		maxLeaves, maxBlocks = 6, 3
		rowsSet = []uint8{0, 1, 3, 8, 63}
	}
	rng := rand.New(rand.NewSource(res.Seed + 909))
	n := 0
	enumHistories(maxLeaves, maxBlocks, func(h racHistory) {
		total := 0
		for _, b := range h {
			total += b.Adds
		}
		for mask := uint64(0); mask < (uint64(1) << uint(total)); mask++ {
			for _, rows := range rowsSet {
				n++
				res.seen(fmt.Sprintf("%s/%d/%d", h.String(), mask, rows))
				d := buildPartial(res, h, mask, rows, len(h), true)
				if d == nil {
					continue
				}
				var rs []Hash
				for x := range d.R {
					rs = append(rs, x)
				}
				sort.Slice(rs, func(i, j int) bool { return fmt.Sprint(rs[i]) < fmt.Sprint(rs[j]) })
				live := d.spec.liveHashes()
				// scenario a: Prune of cached subsets (all subsets when few, seeded otherwise)
				if len(rs) > 0 && (n%3 == 0 || res.thorough()) {
					for _, S := range subsetsOf(rs, 3, rng, 3) {
						dd := buildPartial(res, h, mask, rows, len(h), false)
						if dd == nil {
							break
						}
						var perr error
						pan := safely(func() { perr = dd.m.Prune(S) })
						res.eval("MapPollard.Prune.rac.total")
						if pan != "" || perr != nil {
							res.fail("MapPollard.Prune.rac.total", dd.in(h, "mask", mask, "prune", shortHashes(S)), fmt.Sprintf("panic=%q err=%v", pan, perr), "pruned")
							continue
						}
						for _, x := range S {
							delete(dd.R, x)
						}
						dd.checkInvariant(res, h, "after-prune "+shortHashes(S), true)
					}
				}
				// scenario b/c: Verify(remember) / Ingest of live subsets, then Prune them again
				if len(live) > 0 && d.spec.n > 1 && (n%5 == 0 || res.thorough()) {
					for _, S := range subsetsOf(live, 2, rng, 2) {
						for _, mode := range []string{"verify-remember", "ingest"} {
							dd := buildPartial(res, h, mask, rows, len(h), false)
							if dd == nil {
								break
							}
							pr, _ := dd.spec.CanonProof(S)
							var e error
							pan := safely(func() {
								if mode == "ingest" {
									e = dd.m.Ingest(S, pr)
								} else {
									e = dd.m.Verify(S, pr, true)
								}
							})
							res.eval("MapPollard." + mode + ".rac.total")
							if pan != "" || e != nil {
								res.fail("MapPollard."+mode+".rac.total", dd.in(h, "mask", mask, "subset", shortHashes(S)), fmt.Sprintf("panic=%q err=%v", pan, e), "ok")
								continue
							}
							for _, x := range S {
								dd.R[x] = true
							}
							if dd.checkInvariant(res, h, "after-"+mode+" "+shortHashes(S), true) {
								safely(func() { dd.m.Prune(S) })
								for _, x := range S {
									if mask&0 == 0 {
										delete(dd.R, x)
									}
								}
								// leaves remembered at Modify time and pruned now are forgotten as well
								dd.checkInvariant(res, h, "after-"+mode+"-then-prune "+shortHashes(S), true)
							}
						}
					}
				}
				// scenario d: undo of the last block
				if n%2 == 0 || res.thorough() {
					dd := buildPartial(res, h, mask, rows, len(h), false)
					if dd != nil {
						bd := dd.bds[len(h)-1]
						var e error
						pan := safely(func() { e = dd.m.Undo(uint64(len(bd.adds)), bd.proof, bd.delHashes, bd.prevRoots) })
						res.eval("MapPollard.Undo.rac.accepts")
						if pan != "" || e != nil {
							res.fail("MapPollard.Undo.rac.accepts", dd.in(h, "mask", mask), fmt.Sprintf("panic=%q err=%v", pan, e), "undone")
						} else {
							ref := buildPartial(res, h, mask, rows, len(h)-1, false)
							if ref != nil {
								dd.spec = ref.spec
								dd.R = dd.prev[len(h)-1]
								dd.checkInvariant(res, h, "after-undo", false)
							}
						}
					}
				}
			}
		}
		if n%3001 < 3 && len(h) == maxBlocks {
			res.sample(map[string]interface{}{"history": h.String(), "remember_masks": uint64(1) << uint(total), "rows": rowsSet})
		}
	})
	// started from bare roots at every reachable state
	enumHistories(maxLeaves, 2, func(h racHistory) {
		w, ok := replayHistory(res, h, nil, false)
		if !ok || w.spec.n < 2 {
			return
		}
		live := w.spec.liveHashes()
		if len(live) == 0 {
			return
		}
		for _, S := range subsetsOf(live, 3, rng, 3) {
			m := NewMapPollardFromRoots(w.spec.Roots(), w.spec.n, false)
			d := &partialDriver{m: &m, spec: w.spec.clone(), R: map[Hash]bool{}}
			pr, _ := d.spec.CanonProof(S)
			var e error
			pan := safely(func() { e = d.m.Verify(S, pr, true) })
			res.eval("MapPollard.verify-remember.rac.total")
			if pan != "" || e != nil {
				res.fail("MapPollard.verify-remember.rac.total", d.in(h, "from", "roots", "subset", shortHashes(S)), fmt.Sprintf("panic=%q err=%v", pan, e), "ok")
				continue
			}
			for _, x := range S {
				d.R[x] = true
			}
			n++
			res.seen(fmt.Sprintf("roots/%s/%v", h.String(), S))
			d.checkInvariant(res, h, "from-roots after-verify-remember "+shortHashes(S), true)
		}
	})
	nl := 150
	if res.thorough() {
		nl = 2500
	}
	n += runLongLivedClients(res, rng, nl, rowsSet, false)
	res.Exhaustive = false
	res.Rule = fmt.Sprintf("(+%d seeded long-lived light clients on forests of up to ~30 leaves: random Remember flags, further live leaves remembered between blocks through Verify(remember)/Ingest, invariant after every step and after undoing the last block) ", nl) + fmt.Sprintf("non-full MapPollard with TotalRows in %v: every history with <= %d leaves / <= %d blocks and every Remember-flag vector (deletions first verified with remember); after every block the representation invariant (true hashes at every stored position; every remembered leaf cached at its position and provable with the canonical proof; nothing stored beyond roots, remembered leaves and the positions on their paths/proof paths); at the final state Prune of cached subsets, Verify(remember)/Ingest of live subsets then Prune, Undo of the last block (sampled 1/3, 1/5, 1/2 of the states in the quick tier); plus NewMapPollardFromRoots at every reachable 2-block state. distinct = (history, mask, rows) triples", rowsSet, maxLeaves, maxBlocks)
	res.Scope = fmt.Sprintf("runs=%d", n)
	res.write(t)
}
