//go:build verif

package utreexo

import (
	"fmt"
	"math/rand"
	"testing"
)

// C16 bounded clauses (the `rac ensures` lines of the contracts file): the functional clause of
// ProofPositions (both results), RootPositions element-wise, subtreeRow, DetectOffset's functional
// clause, translatePositions, the TotalRows variants of the root tests, getRootPosition, proofPosition.
// The oracle is the geometry of the spec forest (row starts by closed form, trees by the binary digits
// of the leaf count, paths by (row, offset/2)).
func TestRAC_C16(t *testing.T) {
	res := newRacResult("C16")
	maxN := 8
	if res.thorough() {
		maxN = 12
	}
	rng := rand.New(rand.NewSource(res.Seed + 1616))
	for n := 1; n <= maxN; n++ {
		full := newSpecForest()
		for i := 0; i < n; i++ {
			full.alive[uint64(i)] = specLeaf(i)
		}
		full.n = uint64(n)
		tr := specTreeRows(uint64(n))
		for _, rows := range []uint8{tr, tr + 1, tr + 2, 63} {
			in := func(extra ...interface{}) map[string]interface{} {
				m := map[string]interface{}{"numLeaves": n, "totalRows": rows}
				for i := 0; i+1 < len(extra); i += 2 {
					m[fmt.Sprint(extra[i])] = extra[i+1]
				}
				return m
			}
			// ---- RootPositions / subtreeRow / root tests
			var wantRoots []uint64
			for _, tcur := range full.trees() {
				wantRoots = append(wantRoots, specPos(tcur.row, tcur.base>>tcur.row, rows))
			}
			res.eval("RootPositions.rac.elements")
			if got := RootPositions(uint64(n), rows); !u64Eq(got, wantRoots) && !(len(got) == 0 && len(wantRoots) == 0) {
				res.fail("RootPositions.rac.elements", in(), fmt.Sprint(got), fmt.Sprint(wantRoots))
			}
			if rows == tr {
				for k, tcur := range full.trees() {
					res.eval("subtreeRow.rac")
					if got := subtreeRow(uint64(n), uint8(k)); got != tcur.row {
						res.fail("subtreeRow.rac", in("subTree", k), fmt.Sprint(got), fmt.Sprint(tcur.row))
					}
				}
			}
			nodes := full.PlacedNodes(rows)
			rootSet := full.rootPositions(rows)
			var allPos []uint64
			for p := range nodes {
				allPos = append(allPos, p)
			}
			allPos = sortedU64(allPos)
			for _, p := range allPos {
				nd := nodes[p]
				res.eval("isRootPositionTotalRows.rac")
				if got := isRootPositionTotalRows(p, uint64(n), rows); got != rootSet[p] {
					res.fail("isRootPositionTotalRows.rac", in("pos", p), fmt.Sprint(got), fmt.Sprint(rootSet[p]))
				}
				res.eval("isRootPositionOnRowTotalRows.rac")
				if got := isRootPositionOnRowTotalRows(p, uint64(n), nd.Row, rows); got != rootSet[p] {
					res.fail("isRootPositionOnRowTotalRows.rac", in("pos", p, "row", nd.Row), fmt.Sprint(got), fmt.Sprint(rootSet[p]))
				}
				// the root above p
				var wantRoot uint64
				for _, tcur := range full.trees() {
					if nd.Lo >= tcur.base && nd.Lo < tcur.base+(uint64(1)<<tcur.row) {
						wantRoot = specPos(tcur.row, tcur.base>>tcur.row, rows)
					}
				}
				res.eval("getRootPosition.rac")
				if got, err := getRootPosition(p, uint64(n), rows); err != nil || got != wantRoot {
					res.fail("getRootPosition.rac", in("pos", p), fmt.Sprintf("%d err=%v", got, err), fmt.Sprint(wantRoot))
				}
				res.eval("proofPosition.rac")
				if got, want := proofPosition(p, uint64(n), rows), full.CanonProofPositions([]uint64{p}, rows); !u64Eq(got, want) && !(len(got) == 0 && len(want) == 0) {
					res.fail("proofPosition.rac", in("pos", p), fmt.Sprint(got), fmt.Sprint(want))
				}
				res.eval("translatePositions.rac")
				if got := translatePositions([]uint64{p}, rows, 63); len(got) != 1 || got[0] != specTranslate(p, rows, 63) {
					res.fail("translatePositions.rac", in("pos", p), fmt.Sprint(got), fmt.Sprint(specTranslate(p, rows, 63)))
				}
				if rows == tr {
					// DetectOffset: tree index, branch length and the path bits
					tree, bl, bits, err := DetectOffset(p, uint64(n))
					var wt, wbl uint8
					var oit uint64
					for k, tcur := range full.trees() {
						if nd.Lo >= tcur.base && nd.Lo < tcur.base+(uint64(1)<<tcur.row) {
							wt, wbl = uint8(k), tcur.row-nd.Row
							oit = nd.Off - (tcur.base >> nd.Row)
						}
					}
					mask := (uint64(1) << wbl) - 1
					res.eval("DetectOffset.rac")
					if err != nil || tree != wt || bl != wbl || ((^bits)^1)&mask != oit&mask {
						res.fail("DetectOffset.rac", in("pos", p), fmt.Sprintf("tree=%d branchLen=%d lowbits=%b err=%v", tree, bl, ((^bits)^1)&mask, err), fmt.Sprintf("tree=%d branchLen=%d lowbits=%b", wt, wbl, oit&mask))
					}
				}
			}
		}
		// ---- ProofPositions: every alive-configuration, every subset of the placed leaf positions
		for amask := 1; amask < (1 << n); amask++ {
			if n > 6 && rng.Intn(1<<(n-6)) != 0 {
				continue // larger forests: a seeded sample of the alive-configurations
			}
			f := newSpecForest()
			f.n = uint64(n)
			for i := 0; i < n; i++ {
				if amask&(1<<i) != 0 {
					f.alive[uint64(i)] = specLeaf(i)
				}
			}
			for _, rows := range []uint8{tr, tr + 1, 63} {
				lp := f.LeafPositions(rows)
				var leafPos []uint64
				for _, p := range lp {
					leafPos = append(leafPos, p)
				}
				leafPos = sortedU64(leafPos)
				for tmask := 1; tmask < (1 << len(leafPos)); tmask++ {
					var targets []uint64
					for i, p := range leafPos {
						if tmask&(1<<i) != 0 {
							targets = append(targets, p)
						}
					}
					wantP := f.CanonProofPositions(targets, rows)
					wantC := f.ComputablePositions(targets, rows)
					tcopy := cloneU64(targets)
					gotP, gotC := ProofPositions(targets, uint64(n), rows)
					res.seen(fmt.Sprintf("%d/%d/%d/%v", n, amask, rows, targets))
					res.eval("ProofPositions.rac.proof-positions")
					if !u64Eq(gotP, wantP) && !(len(gotP) == 0 && len(wantP) == 0) {
						res.fail("ProofPositions.rac.proof-positions", map[string]interface{}{"numLeaves": n, "totalRows": rows, "targets": tcopy}, fmt.Sprint(gotP), fmt.Sprint(wantP))
					}
					res.eval("ProofPositions.rac.computable")
					if !u64Eq(gotC, wantC) && !(len(gotC) == 0 && len(wantC) == 0) {
						res.fail("ProofPositions.rac.computable", map[string]interface{}{"numLeaves": n, "totalRows": rows, "targets": tcopy}, fmt.Sprint(gotC), fmt.Sprint(wantC))
					}
					res.eval("C17.preserves.ProofPositions")
					if !u64Eq(targets, tcopy) {
						res.fail("C17.preserves.ProofPositions", map[string]interface{}{"numLeaves": n, "targets": tcopy}, "targets modified", "unchanged")
					}
				}
			}
		}
		res.sample(map[string]interface{}{"numLeaves": n, "rows": []uint8{tr, tr + 1, tr + 2, 63}})
	}
	res.Exhaustive = !res.thorough() || true
	res.Rule = fmt.Sprintf("forests with 1..%d leaves; total rows in {TreeRows(n), +1, +2, 63}; every node position of the complete forest for the per-position functions; for ProofPositions every alive-configuration (a seeded sample beyond 6 leaves) and every non-empty subset of its placed leaf positions; oracle: spec geometry (CanonProofPositions, ComputablePositions, trees). distinct = (n, alive set, rows, targets) tuples", maxN)
	res.write(t)
}
