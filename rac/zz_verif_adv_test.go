//go:build verif

package utreexo

import (
	"fmt"
	"testing"
)

// Adversarial leaf VALUES (C02 / C10): the properties quantify over distinct non-empty leaves and over
// arbitrary 32-byte look-up hashes; nothing makes a leaf different from the hash of an internal node or
// from another hash in its first 12 bytes.
//   (a) a never-added hash that shares its first 12 bytes with a live leaf must be reported not-found;
//   (b) a leaf whose value equals the current hash of a taller tree's root must not disturb the positions
//       and proofs of the other leaves;
//   (c) two live leaves that share their first 12 bytes are both provable at their own positions.
func advWorld(res *racResult, leaves []Hash) (*racWorld, bool) {
	cfgs := []mapCfg{{Full: true, TotalRows: 63}, {Full: true, TotalRows: 0}, {Full: false, TotalRows: 63}}
	w := newWorld(cfgs)
	var ls []Leaf
	for _, l := range leaves {
		ls = append(ls, Leaf{Hash: l, Remember: true})
	}
	if _, err := w.stump.Update(nil, leaves, Proof{}); err != nil {
		return w, false
	}
	if err := w.pol.Modify(ls, nil, Proof{}); err != nil {
		return w, false
	}
	for _, m := range w.maps {
		if err := m.Modify(ls, nil, Proof{}); err != nil {
			return w, false
		}
	}
	w.spec.Apply(nil, leaves)
	return w, true
}

// advAssignments: adversarial assignments of values to insertion slots (all values distinct and non-empty).
type advAssignment struct {
	name string
	leaf func(int) Hash
}

func advAssignments() []advAssignment {
	sib := func(a, b Hash) Hash { return parentHash(a, b) }
	return []advAssignment{
		{"pairs-of-leaves-share-a-12-byte-prefix", func(i int) Hash {
			v := specLeaf(i)
			b := specLeaf(i / 2 * 2)
			copy(v[:12], b[:12])
			return v
		}},
		{"all-leaves-share-a-12-byte-prefix", func(i int) Hash {
			v := specLeaf(i)
			b := specLeaf(0)
			copy(v[:12], b[:12])
			return v
		}},
		{"a-leaf-equals-the-hash-of-a-later-internal-node", func(i int) Hash {
			switch i {
			case 0:
				return sib(specLeaf(2), specLeaf(3))
			case 4:
				return sib(sib(sib(specLeaf(2), specLeaf(3)), specLeaf(1)), sib(specLeaf(2), specLeaf(3)))
			}
			return specLeaf(i)
		}},
		{"a-leaf-equals-the-hash-of-an-earlier-internal-node", func(i int) Hash {
			switch i {
			case 2:
				return sib(specLeaf(0), specLeaf(1))
			case 4:
				return sib(sib(specLeaf(0), specLeaf(1)), sib(sib(specLeaf(0), specLeaf(1)), specLeaf(3)))
			case 5:
				return sib(specLeaf(3), specLeaf(4))
			}
			return specLeaf(i)
		}},
		{"a-leaf-equals-the-hash-of-an-internal-node-of-another-tree", func(i int) Hash {
			switch i {
			case 4:
				return sib(specLeaf(0), specLeaf(1))
			case 5:
				return sib(specLeaf(2), specLeaf(3))
			}
			return specLeaf(i)
		}},
	}
}

func TestRAC_ADV(t *testing.T) {
	res := newRacResult("ADV")
	for n := 1; n <= 9; n++ {
		// (a) prefix-sharing look-up
		var leaves []Hash
		for i := 0; i < n; i++ {
			leaves = append(leaves, specLeaf(i))
		}
		w, ok := advWorld(res, leaves)
		if !ok {
			continue
		}
		for i := 0; i < n; i++ {
			fake := specLeaf(i)
			fake[20] ^= 0x5A // same first 12 bytes, never added
			in := map[string]interface{}{"leaves": n, "fake_shares_12_byte_prefix_with_leaf": i}
			res.seen(fmt.Sprint("a", n, i))
			pos, found := w.pol.GetLeafPosition(fake)
			res.eval("Pollard.GetLeafPosition.rac/never-added-hash-sharing-a-12-byte-prefix")
			if found {
				res.fail("Pollard.GetLeafPosition.rac/never-added-hash-sharing-a-12-byte-prefix", in, fmt.Sprintf("(%d,true)", pos), "(0,false)")
			}
			_, perr := w.pol.Prove([]Hash{fake})
			res.eval("Pollard.Prove.rac/never-added-hash-sharing-a-12-byte-prefix")
			if perr == nil && n > 1 {
				res.fail("Pollard.Prove.rac/never-added-hash-sharing-a-12-byte-prefix", in, "proved a hash that is not in the accumulator", "error")
			}
			for k, m := range w.maps {
				if _, f := m.GetLeafPosition(fake); f {
					res.fail("MapPollard.GetLeafPosition.rac/never-added-hash-sharing-a-12-byte-prefix", map[string]interface{}{"leaves": n, "config": w.cfgs[k].String()}, "found", "(0,false)")
				}
			}
		}
	}
	// (b) a leaf equal to the hash of a taller tree's root
	for k := uint(1); k <= 3; k++ {
		var leaves []Hash
		for i := 0; i < 1<<k; i++ {
			leaves = append(leaves, specLeaf(i))
		}
		sf := newSpecForest()
		sf.Apply(nil, leaves)
		root := sf.Roots()[0]
		leaves = append(leaves, root) // distinct from every other leaf, non-empty
		w, ok := advWorld(res, leaves)
		if !ok {
			continue
		}
		res.seen(fmt.Sprint("b", k))
		h := racHistory{{Adds: len(leaves)}}
		for i := 0; i < 1<<k; i++ {
			checkProveTagged(res, w, h, []Hash{leaves[i]}, "/a-leaf-equals-the-hash-of-a-taller-root")
		}
	}
	// (c) two live leaves sharing their first 12 bytes
	for n := 2; n <= 6; n++ {
		var leaves []Hash
		for i := 0; i < n; i++ {
			leaves = append(leaves, specLeaf(i))
		}
		twin := specLeaf(0)
		twin[25] ^= 0x33
		leaves = append(leaves, twin)
		w, ok := advWorld(res, leaves)
		if !ok {
			continue
		}
		res.seen(fmt.Sprint("c", n))
		h := racHistory{{Adds: len(leaves)}}
		checkProveTagged(res, w, h, []Hash{leaves[0]}, "/two-live-leaves-share-a-12-byte-prefix")
		checkProveTagged(res, w, h, []Hash{twin}, "/two-live-leaves-share-a-12-byte-prefix")
	}
	// (d) whole histories under adversarial value assignments: the C01 / C02 / C06 / C10 contracts of every
	// enumerated history (apply with the root check, undo to every depth with the full-view comparison,
	// different blocks after each undo depth, redo), with the leaf of insertion slot s given the value V(s).
	assignments := advAssignments()
	cfgs := []mapCfg{{Full: true, TotalRows: 63}, {Full: true, TotalRows: 0}, {Full: false, TotalRows: 63}}
	maxLeaves, maxBlocks := 5, 3
	if res.thorough() {
		maxLeaves, maxBlocks = 6, 3
	}
	nh := 0
	for _, a := range assignments {
		racLeaf = a.leaf
		enumHistories(maxLeaves, maxBlocks, func(h racHistory) {
			res.seen(a.name + "/" + h.String())
			res.tagged("/leaf-values="+a.name, func(tmp *racResult) { runUndoHistory(tmp, cfgs, h, &nh, true) })
		})
	}
	// the same assignments on 6 leaves / 2 blocks (a sixth leaf puts a two-leaf tree next to the four-leaf tree)
	for _, a := range assignments {
		racLeaf = a.leaf
		enumHistories(6, 2, func(h racHistory) {
			total := 0
			for _, b := range h {
				total += b.Adds
			}
			if total < 6 {
				return // covered above
			}
			res.seen(a.name + "/" + h.String())
			res.tagged("/leaf-values="+a.name, func(tmp *racResult) { runUndoHistory(tmp, cfgs, h, &nh, true) })
		})
	}
	racLeaf = specLeaf
	// blocks that re-add a value they have just deleted
	racReuseDeleted = true
	enumHistories(maxLeaves, maxBlocks, func(h racHistory) {
		reuse := false
		for _, b := range h {
			if len(b.Dels) > 0 && b.Adds > 0 {
				reuse = true
			}
		}
		if !reuse {
			return
		}
		res.seen("re-add/" + h.String())
		res.tagged("/leaf-values=a-block-re-adds-a-value-it-deletes", func(tmp *racResult) { runUndoHistory(tmp, cfgs, h, &nh, true) })
	})
	racReuseDeleted = false
	res.Exhaustive = true
	res.Rule = "adversarial leaf values: forests of 1..9 leaves with look-ups of never-added hashes sharing a 12-byte prefix with each live leaf; forests of 2^k+1 leaves (k=1..3) whose last leaf equals the root hash of the 2^k tree; forests with two live leaves sharing a 12-byte prefix; every history with <= "+fmt.Sprint(maxLeaves)+" leaves / <= "+fmt.Sprint(maxBlocks)+" blocks under 5 adversarial value assignments (pairs / all leaves share a 12-byte prefix; a leaf equals the hash of a later / an earlier internal node / an internal node of another tree), the same on 6 leaves / 2 blocks, and with blocks that re-add a value they have just deleted, with the C01 root check after every block and the C06 full-view comparison after every undo depth. distinct = scenarios"
	res.write(t)
}
