#!/bin/sh
# Builds the verification tools from files on disk only (offline).
set -e
cd "$(dirname "$0")"
export GOFLAGS=-mod=mod GOPROXY=off GOSUMDB=off GOTOOLCHAIN=local
mkdir -p bin evidence
go build -o bin/govc ./govc
go build -o bin/perm ./perm
echo "setup ok"
