package main

import (
	"fmt"
	"go/types"
	"sort"
	"strings"

	"golang.org/x/tools/go/ssa"
)

// Slice-ownership contracts (property C17, DESIGN 2.7 / section 5 C17).
//
// Every slice-typed parameter (and every slice field of a struct parameter such as Proof /
// UpdateData) of a listed entry point carries `preserves`: no execution of the call writes an
// element of the caller-visible part of that slice.  The checker computes, for every function of
// the package, a summary
//     writes(f, o)   : f may write through origin o (a parameter, or a field of a struct parameter)
//     returns(f)     : the origins the results may alias (so that callers keep tracking them)
// by a fixpoint over go/ssa (field-sensitive for the package's struct types, flow-insensitive
// inside a function, conservative for memory cells), and then discharges one obligation per
// (entry point, preserved origin): writes(entry, origin) == false.  A write site the analysis cannot
// clear but which the contracts file marks `bounded-write <origin>` (a store of the value that is
// already there, for honest blocks) is reported as bounded and covered by the runtime snapshots of
// the RAC tier; it is not counted as proved.

// origin: "p<i>" (parameter i, receiver = 0 when present) optionally followed by ".<field>" ; "fresh" ; "state".
type originSet map[string]bool

func (o originSet) add(s string) bool {
	if o[s] {
		return false
	}
	o[s] = true
	return true
}

func (o originSet) addAll(p originSet) bool {
	ch := false
	for k := range p {
		if o.add(k) {
			ch = true
		}
	}
	return ch
}

// abstract value: origins of the slice itself, or per-field origins for struct values
type absVal struct {
	self   originSet
	fields map[string]*absVal
	short  bool // may be a reslice x[:i] that ends inside the visible part of its source: append overwrites the source
}

func newAbs() *absVal { return &absVal{self: originSet{}, fields: map[string]*absVal{}} }

func (a *absVal) field(name string) *absVal {
	if a.fields[name] == nil {
		a.fields[name] = newAbs()
	}
	return a.fields[name]
}

func (a *absVal) merge(b *absVal) bool {
	if b == nil {
		return false
	}
	ch := a.self.addAll(b.self)
	if b.short && !a.short {
		a.short = true
		ch = true
	}
	for k, v := range b.fields {
		if a.field(k).merge(v) {
			ch = true
		}
	}
	return ch
}

// all origins mentioned anywhere in the value
func (a *absVal) all() originSet {
	o := originSet{}
	o.addAll(a.self)
	for _, f := range a.fields {
		o.addAll(f.all())
	}
	return o
}

type ownSummary struct {
	writes  map[string]string // origin -> description of a write site
	returns []*absVal         // per result
	stores  map[int]*absVal   // pointer parameter index -> what the pointee may hold at return (callee-relative origins)
}

type ownChecker struct {
	l     *loaded
	funcs []*ssa.Function
	sum   map[*ssa.Function]*ownSummary
}

func isSliceLike(t types.Type) bool {
	switch t.Underlying().(type) {
	case *types.Slice:
		return true
	}
	return false
}

func structFields(t types.Type) []*types.Var {
	if p, ok := t.Underlying().(*types.Pointer); ok {
		t = p.Elem()
	}
	st, ok := t.Underlying().(*types.Struct)
	if !ok {
		return nil
	}
	var out []*types.Var
	for i := 0; i < st.NumFields(); i++ {
		out = append(out, st.Field(i))
	}
	return out
}

// paramAbs: the abstract value of parameter i.
func paramAbs(i int, t types.Type) *absVal {
	a := newAbs()
	name := fmt.Sprintf("p%d", i)
	if isSliceLike(t) {
		a.self.add(name)
		return a
	}
	for _, f := range structFields(t) {
		if isSliceLike(f.Type()) {
			a.field(f.Name()).self.add(name + "." + f.Name())
		} else if len(structFields(f.Type())) > 0 {
			for _, g := range structFields(f.Type()) {
				if isSliceLike(g.Type()) {
					a.field(f.Name()).field(g.Name()).self.add(name + "." + f.Name() + "." + g.Name())
				}
			}
		}
	}
	return a
}

// substitute: maps a callee-relative abstract value to the caller's by replacing origin p<i>[.f] with
// the corresponding part of the argument values.
func substitute(v *absVal, args []*absVal) *absVal {
	out := newAbs()
	for o := range v.self {
		out.self.addAll(resolveOrigin(o, args))
	}
	for k, f := range v.fields {
		out.fields[k] = substitute(f, args)
	}
	return out
}

func resolveOrigin(o string, args []*absVal) originSet {
	res := originSet{}
	if !strings.HasPrefix(o, "p") {
		res.add(o)
		return res
	}
	parts := strings.Split(o, ".")
	var idx int
	fmt.Sscanf(parts[0], "p%d", &idx)
	if idx >= len(args) || args[idx] == nil {
		return res
	}
	cur := args[idx]
	for _, f := range parts[1:] {
		cur = cur.field(f)
	}
	res.addAll(cur.self)
	return res
}

func (c *ownChecker) analyze(f *ssa.Function) bool {
	s := c.sum[f]
	vals := map[ssa.Value]*absVal{}
	cells := map[ssa.Value]*absVal{} // contents of Alloc cells / pointer parameters
	get := func(v ssa.Value) *absVal {
		if a, ok := vals[v]; ok {
			return a
		}
		a := newAbs()
		vals[v] = a
		return a
	}
	nparams := 0
	for i, p := range f.Params {
		nparams++
		pa := paramAbs(i, p.Type())
		get(p).merge(pa)
		if _, isPtr := p.Type().Underlying().(*types.Pointer); isPtr {
			// the pointee: its slice fields are origins too (receiver state)
			cells[p] = pa
		}
	}
	changedSummary := false
	noteWrite := func(target *absVal, site string) {
		for o := range target.self {
			if strings.HasPrefix(o, "p") {
				if _, ok := s.writes[o]; !ok {
					s.writes[o] = site
					changedSummary = true
				}
			}
		}
	}
	// cell lookup for an address value (Alloc, FieldAddr chains, pointer params)
	var cellOf func(addr ssa.Value) *absVal
	phiBusy := map[*ssa.Phi]bool{}
	cellOf = func(addr ssa.Value) *absVal {
		switch x := addr.(type) {
		case *ssa.Alloc, *ssa.Parameter, *ssa.FreeVar, *ssa.Global:
			if cells[x] == nil {
				cells[x] = newAbs()
			}
			return cells[x]
		case *ssa.FieldAddr:
			base := cellOf(x.X)
			fs := structFields(x.X.Type())
			if x.Field < len(fs) {
				return base.field(fs[x.Field].Name())
			}
			return base
		case *ssa.IndexAddr:
			// element of a slice/array of structs: not tracked separately
			return newAbs()
		case *ssa.UnOp:
			return get(x)
		case *ssa.Phi:
			a := newAbs()
			if phiBusy[x] {
				return a
			}
			phiBusy[x] = true
			for _, e := range x.Edges {
				a.merge(cellOf(e))
			}
			delete(phiBusy, x)
			return a
		}
		return newAbs()
	}
	for iter := 0; iter < 20; iter++ {
		changed := false
		for _, b := range f.Blocks {
			for _, ins := range b.Instrs {
				site := fmt.Sprintf("%s at %s", funcKey(f), c.l.pos(ins.Pos()))
				switch x := ins.(type) {
				case *ssa.Slice:
					if get(x).merge(sliceSource(x.X, get, cellOf)) {
						changed = true
					}
					if x.High != nil && !get(x).short {
						get(x).short = true
						changed = true
					}
				case *ssa.Phi:
					for _, e := range x.Edges {
						if get(x).merge(get(e)) {
							changed = true
						}
					}
				case *ssa.ChangeType:
					if get(x).merge(get(x.X)) {
						changed = true
					}
				case *ssa.Convert:
					if get(x).merge(get(x.X)) {
						changed = true
					}
				case *ssa.MakeInterface:
					if get(x).merge(get(x.X)) {
						changed = true
					}
				case *ssa.MakeSlice:
					if get(x).self.add("fresh") {
						changed = true
					}
				case *ssa.Alloc:
					// cell contents start empty
				case *ssa.UnOp:
					if x.Op.String() == "*" {
						if get(x).merge(cellOf(x.X)) {
							changed = true
						}
					}
				case *ssa.Field:
					fs := structFields(x.X.Type())
					if x.Field < len(fs) {
						if get(x).merge(get(x.X).field(fs[x.Field].Name())) {
							changed = true
						}
					}
				case *ssa.Extract:
					tup := get(x.Tuple)
					if get(x).merge(tup.field(fmt.Sprintf("#%d", x.Index))) {
						changed = true
					}
				case *ssa.Store:
					// element store through IndexAddr: a write to the slice
					if ia, ok := x.Addr.(*ssa.IndexAddr); ok {
						noteWrite(sliceSource(ia.X, get, cellOf), site)
						// an array inside a slice element (s[i].arr[j] = v) is a write to the slice as well
						if up := elemOfSlice(ia.X); up != nil {
							noteWrite(sliceSource(up.X, get, cellOf), site)
						}
					} else if up := elemOfSlice(x.Addr); up != nil {
						// store into a field of a slice element, also through a pointer taken to the element
						// (p := &s[i]; p.f = v): a write to the slice
						noteWrite(sliceSource(up.X, get, cellOf), site)
					} else {
						if cellOf(x.Addr).merge(get(x.Val)) {
							changed = true
						}
					}
				case ssa.CallInstruction:
					if c.call(f, x, get, cellOf, noteWrite, site) {
						changed = true
					}
				case *ssa.Return:
					for i, r := range x.Results {
						for len(s.returns) <= i {
							s.returns = append(s.returns, newAbs())
						}
						if s.returns[i].merge(get(r)) {
							changedSummary = true
						}
					}
				}
			}
		}
		if !changed {
			break
		}
	}
	for i, p := range f.Params {
		if _, isPtr := p.Type().Underlying().(*types.Pointer); isPtr {
			if cells[p] != nil {
				if s.stores[i] == nil {
					s.stores[i] = newAbs()
				}
				if s.stores[i].merge(cells[p]) {
					changedSummary = true
				}
			}
		}
	}
	return changedSummary
}

// elemOfSlice follows an address up through field and array-element selections; when it reaches the address of a slice
// element (IndexAddr over a slice) it returns that instruction, otherwise nil.
func elemOfSlice(addr ssa.Value) *ssa.IndexAddr {
	for depth := 0; depth < 16; depth++ {
		switch a := addr.(type) {
		case *ssa.FieldAddr:
			addr = a.X
		case *ssa.IndexAddr:
			if _, isSlice := a.X.Type().Underlying().(*types.Slice); isSlice {
				return a
			}
			addr = a.X
		default:
			return nil
		}
	}
	return nil
}

// sliceSource: the abstract value of the slice an IndexAddr/Slice operates on (may be a pointer to an array).
func sliceSource(v ssa.Value, get func(ssa.Value) *absVal, cellOf func(ssa.Value) *absVal) *absVal {
	if _, isPtr := v.Type().Underlying().(*types.Pointer); isPtr {
		return cellOf(v) // &array
	}
	return get(v)
}

func (c *ownChecker) call(f *ssa.Function, ins ssa.CallInstruction, get func(ssa.Value) *absVal, cellOf func(ssa.Value) *absVal,
	noteWrite func(*absVal, string), site string) bool {
	com := ins.Common()
	res := ins.Value()
	changed := false
	setRes := func(a *absVal) {
		if res != nil && get(res).merge(a) {
			changed = true
		}
	}
	if b, ok := com.Value.(*ssa.Builtin); ok {
		switch b.Name() {
		case "append":
			dst := get(com.Args[0])
			// appending to a reslice that ends inside the visible part of a caller's slice overwrites it
			if sl, ok := com.Args[0].(*ssa.Slice); (ok && sl.High != nil) || dst.short {
				noteWrite(dst, site+" (append into a[:i])")
			}
			a := newAbs()
			a.merge(dst)
			a.self.add("fresh")
			setRes(a)
		case "copy":
			noteWrite(sliceSource(com.Args[0], get, cellOf), site+" (copy destination)")
		}
		return changed
	}
	if com.IsInvoke() {
		return changed
	}
	callee := com.StaticCallee()
	if callee == nil {
		return changed
	}
	// sorting functions write their first argument
	full := ""
	if callee.Pkg != nil {
		full = callee.Pkg.Pkg.Name() + "." + callee.Name()
	} else if callee.Origin() != nil && callee.Origin().Pkg != nil {
		full = callee.Origin().Pkg.Pkg.Name() + "." + callee.Origin().Name()
	}
	switch full {
	case "sort.Slice", "sort.SliceStable", "slices.Sort", "slices.SortFunc", "slices.SortStableFunc", "slices.Reverse":
		a := get(com.Args[0])
		if mi, ok := com.Args[0].(*ssa.MakeInterface); ok {
			a = get(mi.X)
		}
		noteWrite(a, site+" ("+full+")")
		return changed
	case "sort.Sort", "sort.Stable":
		// the argument is an interface holding a hashAndPos (or similar): all its slices are permuted
		if mi, ok := com.Args[0].(*ssa.MakeInterface); ok {
			a := get(mi.X)
			for _, fld := range a.fields {
				noteWrite(fld, site+" ("+full+")")
			}
			noteWrite(a, site+" ("+full+")")
		}
		return changed
	case "slices.Delete", "slices.Insert":
		noteWrite(get(com.Args[0]), site+" ("+full+")")
		a := newAbs()
		a.merge(get(com.Args[0]))
		setRes(a)
		return changed
	case "slices.Index", "slices.Contains", "slices.IndexFunc", "slices.BinarySearch":
		return changed
	}
	inPkg := callee.Pkg == c.l.pkg || (callee.Origin() != nil && callee.Origin().Pkg == c.l.pkg)
	if !inPkg {
		// other external functions: assumed not to write their slice arguments (fmt, hex, binary.PutUint64 writes
		// its destination: handled as a write)
		if full == "binary.PutUint64" || strings.HasSuffix(full, ".PutUint64") {
			noteWrite(get(com.Args[len(com.Args)-2]), site+" (PutUint64)")
		}
		if res != nil && isSliceLike(res.Type()) {
			a := newAbs()
			a.self.add("fresh")
			setRes(a)
		}
		return changed
	}
	cs := c.sum[callee]
	if cs == nil {
		return changed
	}
	var args []*absVal
	for _, a := range com.Args {
		av := newAbs()
		av.merge(get(a))
		if _, isPtr := a.Type().Underlying().(*types.Pointer); isPtr {
			av.merge(cellOf(a))
		}
		args = append(args, av)
	}
	for o, where := range cs.writes {
		t := newAbs()
		t.self.addAll(resolveOrigin(o, args))
		noteWrite(t, where)
	}
	if res != nil {
		if len(cs.returns) == 1 {
			setRes(substitute(cs.returns[0], args))
		} else {
			tup := newAbs()
			for i, r := range cs.returns {
				tup.fields[fmt.Sprintf("#%d", i)] = substitute(r, args)
			}
			setRes(tup)
		}
	}
	// effects on the pointees of pointer arguments (hnp.Append, *p = Proof{...}, s.Roots = ...)
	for i, a := range com.Args {
		if st := cs.stores[i]; st != nil {
			if _, isPtr := a.Type().Underlying().(*types.Pointer); isPtr {
				if cellOf(a).merge(substitute(st, args)) {
					changed = true
				}
			}
		}
	}
	return changed
}

// entry points and their preserved parameters (from the C17 statement)
var ownEntries = []string{
	"Verify", "Stump.Update", "Pollard.Verify", "Pollard.Prove", "Pollard.Modify", "Pollard.Undo",
	"MapPollard.Verify", "MapPollard.Prove", "MapPollard.Modify", "MapPollard.Undo", "MapPollard.VerifyPartialProof",
	"MapPollard.GetMissingPositions", "MapPollard.Ingest", "Proof.Update", "Proof.Undo", "AddProof", "GetProofSubset",
}

func checkOwnership(l *loaded) *Report {
	c := &ownChecker{l: l, sum: map[*ssa.Function]*ownSummary{}}
	c.funcs = l.allFuncs()
	for _, f := range c.funcs {
		c.sum[f] = &ownSummary{writes: map[string]string{}, stores: map[int]*absVal{}}
	}
	for round := 0; round < 30; round++ {
		changed := false
		for _, f := range c.funcs {
			if c.analyze(f) {
				changed = true
			}
		}
		if !changed {
			break
		}
	}
	rep := &Report{Tool: "perm own"}
	byKey := map[string]*ssa.Function{}
	for _, f := range c.funcs {
		byKey[funcKey(f)] = f
	}
	// bounded-write allowances from the contracts file: key -> origins (by parameter name path)
	for _, key := range ownEntries {
		f := byKey[key]
		if f == nil {
			rep.Obligations = append(rep.Obligations, Obligation{Name: key + ".own.exists", Func: key, Kind: "own", Desc: "entry point exists", Status: "failed", Detail: "function not found"})
			continue
		}
		rep.Functions = append(rep.Functions, key)
		allowed := map[string]bool{}
		for _, cl := range l.other[key] {
			if strings.HasPrefix(cl, "bounded-write ") {
				allowed[strings.TrimSpace(strings.TrimPrefix(cl, "bounded-write "))] = true
			}
		}
		for i, p := range f.Params {
			if i == 0 && f.Signature.Recv() != nil {
				continue // the receiver is library state, not a caller's slice
			}
			pa := paramAbs(i, p.Type())
			var origins []string
			for o := range pa.all() {
				origins = append(origins, o)
			}
			sort.Strings(origins)
			for _, o := range origins {
				human := strings.Replace(o, fmt.Sprintf("p%d", i), p.Name(), 1)
				where, written := c.sum[f].writes[o]
				ob := Obligation{Name: fmt.Sprintf("%s.preserves.%s", key, human), Func: key, Kind: "own-preserves",
					Desc: fmt.Sprintf("no execution of %s writes an element of the caller's slice %s", key, human), Status: "proved", Pos: l.pos(f.Pos())}
				if written {
					if allowed[human] {
						rep.Bounded = append(rep.Bounded, fmt.Sprintf("%s: write at %s is marked bounded-write (value-preserving store; covered by the RAC argument snapshots)", ob.Name, where))
						continue
					}
					ob.Status = "failed"
					ob.Detail = "may be written: " + where
				}
				rep.Obligations = append(rep.Obligations, ob)
			}
		}
	}
	rep.Assumptions = []string{
		"external (stdlib) functions other than sort/slices/copy/append/binary.PutUint64 do not write their slice arguments",
		"memory cells are tracked flow-insensitively and field-sensitively one level below package struct types",
		"calls through interfaces and function values do not write caller slices (the package passes only comparison closures)",
		"append beyond the length of a caller's slice (into spare capacity) is not a modification of its contents",
	}
	return rep
}
