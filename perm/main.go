// perm: ghost-permission contract checkers over go/ssa (DESIGN 2.7).
//
//	perm lock   -repo /repo -out lock.json     lock-mode discipline of *MapPollard (C12)
//	perm own    -repo /repo -out own.json      slice ownership / non-mutation (C17)
//
// Both read the contracts file (/repo/verif_contracts.go) for the declared clauses
// (`acquires W|R`, `lock: W|R|none`, `preserves ...`, `bounded-write ...`) and verify every function
// against them on all CFG paths; each discharged check is one obligation.
package main

import (
	"encoding/json"
	"flag"
	"fmt"
	"go/token"
	"go/types"
	"os"
	"regexp"
	"sort"
	"strings"

	"golang.org/x/tools/go/packages"
	"golang.org/x/tools/go/ssa"
	"golang.org/x/tools/go/ssa/ssautil"
)

type Obligation struct {
	Name   string `json:"name"`
	Func   string `json:"func"`
	Kind   string `json:"kind"`
	Desc   string `json:"desc"`
	Pos    string `json:"pos,omitempty"`
	Status string `json:"status"` // proved | failed
	Detail string `json:"detail,omitempty"`
}

type Report struct {
	Tool        string            `json:"tool"`
	Obligations []Obligation      `json:"obligations"`
	Functions   []string          `json:"functions"`
	Modes       map[string]string `json:"modes,omitempty"`
	Assumptions []string          `json:"assumptions"`
	Bounded     []string          `json:"bounded,omitempty"`
}

type loaded struct {
	fset  *token.FileSet
	pkg   *ssa.Package
	prog  *ssa.Program
	tpkg  *types.Package
	other map[string][]string // contract key -> verbatim clauses
}

func load(repo string) (*loaded, error) {
	cfg := &packages.Config{
		Mode:       packages.NeedSyntax | packages.NeedTypes | packages.NeedTypesInfo | packages.NeedName | packages.NeedFiles | packages.NeedImports | packages.NeedDeps,
		Dir:        repo,
		BuildFlags: []string{"-tags=verif"},
		Env:        append(os.Environ(), "GOFLAGS=-mod=mod", "GOPROXY=off", "GOSUMDB=off", "GOTOOLCHAIN=local"),
	}
	pkgs, err := packages.Load(cfg, ".")
	if err != nil {
		return nil, err
	}
	if len(pkgs) != 1 || len(pkgs[0].Errors) > 0 {
		return nil, fmt.Errorf("package load failed: %v", pkgs[0].Errors)
	}
	prog, spkgs := ssautil.AllPackages(pkgs, ssa.InstantiateGenerics)
	prog.Build()
	l := &loaded{fset: pkgs[0].Fset, pkg: spkgs[0], prog: prog, tpkg: pkgs[0].Types, other: map[string][]string{}}
	// contract clauses
	data, err := os.ReadFile(repo + "/verif_contracts.go")
	if err != nil {
		return nil, err
	}
	reHdr := regexp.MustCompile(`^//@\s+func\s+(?:\(\s*\w*\s*\*?(\w+)\s*\)\s*)?(\w+)`)
	cur := ""
	for _, ln := range strings.Split(string(data), "\n") {
		ln = strings.TrimSpace(ln)
		if !strings.HasPrefix(ln, "//@") {
			continue
		}
		if m := reHdr.FindStringSubmatch(ln); m != nil {
			cur = m[2]
			if m[1] != "" {
				cur = m[1] + "." + m[2]
			}
			continue
		}
		if strings.HasPrefix(ln, "//@ lemma") {
			cur = ""
			continue
		}
		if cur != "" {
			body := strings.TrimSpace(strings.TrimPrefix(ln, "//@"))
			if k := strings.Index(body, " // "); k >= 0 {
				body = strings.TrimSpace(body[:k])
			}
			l.other[cur] = append(l.other[cur], body)
		}
	}
	return l, nil
}

func (l *loaded) pos(p token.Pos) string {
	if !p.IsValid() {
		return ""
	}
	ps := l.fset.Position(p)
	f := ps.Filename
	if k := strings.LastIndex(f, "/"); k >= 0 {
		f = f[k+1:]
	}
	return fmt.Sprintf("%s:%d", f, ps.Line)
}

// funcKey: "Recv.Name" / "Name" ; anonymous functions "Outer$1".
func funcKey(f *ssa.Function) string {
	if f.Parent() != nil {
		return funcKey(f.Parent()) + "$" + strings.TrimPrefix(f.Name(), f.Parent().Name()+"$")
	}
	if recv := f.Signature.Recv(); recv != nil {
		t := recv.Type()
		if p, ok := t.(*types.Pointer); ok {
			t = p.Elem()
		}
		if n, ok := t.(*types.Named); ok {
			return n.Obj().Name() + "." + f.Name()
		}
	}
	return f.Name()
}

// allFuncs: every function of the package including methods and closures.
func (l *loaded) allFuncs() []*ssa.Function {
	var out []*ssa.Function
	seen := map[*ssa.Function]bool{}
	var add func(f *ssa.Function)
	add = func(f *ssa.Function) {
		if f == nil || seen[f] || f.Blocks == nil {
			return
		}
		seen[f] = true
		out = append(out, f)
		for _, a := range f.AnonFuncs {
			add(a)
		}
	}
	for _, m := range l.pkg.Members {
		switch x := m.(type) {
		case *ssa.Function:
			add(x)
		case *ssa.Type:
			for _, t := range []types.Type{x.Type(), types.NewPointer(x.Type())} {
				ms := l.prog.MethodSets.MethodSet(t)
				for i := 0; i < ms.Len(); i++ {
					add(l.prog.MethodValue(ms.At(i)))
				}
			}
		}
	}
	// generic instances reachable from the above
	changed := true
	for changed {
		changed = false
		for _, f := range append([]*ssa.Function{}, out...) {
			for _, b := range f.Blocks {
				for _, ins := range b.Instrs {
					if c, ok := ins.(ssa.CallInstruction); ok {
						if callee := c.Common().StaticCallee(); callee != nil && callee.Pkg == nil && callee.Origin() != nil && callee.Origin().Pkg == l.pkg && !seen[callee] {
							add(callee)
							changed = true
						}
					}
				}
			}
		}
	}
	sort.Slice(out, func(i, j int) bool { return funcKey(out[i]) < funcKey(out[j]) })
	return out
}

func main() {
	if len(os.Args) < 2 {
		fmt.Fprintln(os.Stderr, "usage: perm lock|own [flags]")
		os.Exit(2)
	}
	mode := os.Args[1]
	fs := flag.NewFlagSet(mode, flag.ExitOnError)
	repo := fs.String("repo", "/repo", "repository")
	out := fs.String("out", "", "JSON report")
	fs.Parse(os.Args[2:])
	l, err := load(*repo)
	if err != nil {
		fmt.Fprintln(os.Stderr, "perm: load:", err)
		os.Exit(2)
	}
	var rep *Report
	switch mode {
	case "lock":
		rep = checkLocks(l)
	case "own":
		rep = checkOwnership(l)
	default:
		fmt.Fprintln(os.Stderr, "unknown mode", mode)
		os.Exit(2)
	}
	if *out != "" {
		data, _ := json.MarshalIndent(rep, "", " ")
		os.WriteFile(*out, data, 0o644)
	}
	bad := 0
	for _, o := range rep.Obligations {
		if o.Status != "proved" {
			bad++
			fmt.Printf("FAILED %s [%s] %s %s\n", o.Name, o.Pos, o.Desc, o.Detail)
		}
	}
	fmt.Printf("perm %s: %d obligations, %d failed\n", mode, len(rep.Obligations), bad)
	if bad > 0 {
		os.Exit(1)
	}
}
