package main

import (
	"fmt"
	"go/types"
	"sort"
	"strings"

	"golang.org/x/tools/go/ssa"
)

// Lock-permission contracts for *MapPollard (property C12, DESIGN 2.7 / section 5 C12).
//
// Ghost state: mode in {none, R, W} per shared *MapPollard.
//   m.rwLock.Lock()   requires none, yields W      m.rwLock.Unlock()   requires W, yields none
//   m.rwLock.RLock()  requires none, yields R      m.rwLock.RUnlock()  requires R, yields none
//   deferred unlocks run at every return.
// Guarded fields: NumLeaves, TotalRows, Nodes, CachedLeaves (reads need >= R, writes and Put/Delete need W).
// Immutable fields: rwLock, Full (never assigned through a shared *MapPollard).
// Each function is checked against its mode contract: `acquires W|R` (entry none, acquires once,
// released at every return) or `lock: W|R|none` (caller holds at least that mode; never acquires).
// Contracts not written in the contracts file are inferred (least mode that makes every access legal)
// and reported as inferred.

const (
	mNone = 0
	mR    = 1
	mW    = 2
	mBad  = 9
)

func modeName(m int) string {
	switch m {
	case mNone:
		return "none"
	case mR:
		return "R"
	case mW:
		return "W"
	}
	return "conflict"
}

var guardedFields = map[string]bool{"NumLeaves": true, "TotalRows": true, "Nodes": true, "CachedLeaves": true}
var immutableFields = map[string]bool{"rwLock": true, "Full": true}
var writeMethods = map[string]bool{"Put": true, "Delete": true}

func isMapPollardPtr(t types.Type) bool {
	p, ok := t.(*types.Pointer)
	if !ok {
		return false
	}
	n, ok := p.Elem().(*types.Named)
	return ok && n.Obj().Name() == "MapPollard"
}

// shared: the value denotes the shared forest (not a local being constructed).
func shared(v ssa.Value) bool {
	switch x := v.(type) {
	case *ssa.Alloc:
		return false
	case *ssa.Parameter, *ssa.FreeVar:
		return isMapPollardPtr(x.Type())
	case *ssa.UnOp: // *freevar, or the load of a parameter spilled to the heap because a closure captures it
		switch a := x.X.(type) {
		case *ssa.FreeVar:
			if p, ok := a.Type().(*types.Pointer); ok {
				return isMapPollardPtr(p.Elem())
			}
		case *ssa.Alloc:
			if p, ok := a.Type().(*types.Pointer); ok {
				return isMapPollardPtr(p.Elem())
			}
		}
		return false
	case *ssa.Phi:
		for _, e := range x.Edges {
			if !shared(e) {
				return false
			}
		}
		return true
	case *ssa.MakeInterface:
		return shared(x.X)
	case *ssa.ChangeType:
		return shared(x.X)
	}
	return false
}

type lockSummary struct {
	acquires int // mNone: does not acquire; mR / mW
	need     int // for non-acquiring functions
	declared string
}

type lockChecker struct {
	l     *loaded
	funcs []*ssa.Function
	sum   map[*ssa.Function]*lockSummary
	rep   *Report
	ord   map[string]int
}

// classification of an instruction with respect to the lock discipline
type lockEvent struct {
	kind   string // acquireW acquireR releaseW releaseR deferW deferR rundefers read write call immut
	field  string
	callee *ssa.Function
	ins    ssa.Instruction
}

func (c *lockChecker) events(f *ssa.Function) map[ssa.Instruction][]lockEvent {
	ev := map[ssa.Instruction][]lockEvent{}
	// values loaded from guarded interface fields: value -> field
	loadedFrom := map[ssa.Value]string{}
	lockVal := map[ssa.Value]bool{} // values that are m.rwLock
	for _, b := range f.Blocks {
		for _, ins := range b.Instrs {
			switch x := ins.(type) {
			case *ssa.UnOp:
				if fa, ok := x.X.(*ssa.FieldAddr); ok && shared(fa.X) {
					name := fieldName(fa)
					if guardedFields[name] {
						ev[ins] = append(ev[ins], lockEvent{kind: "read", field: name, ins: ins})
						loadedFrom[x] = name
					}
					if name == "rwLock" {
						lockVal[x] = true
					}
				}
			case *ssa.Store:
				if fa, ok := x.Addr.(*ssa.FieldAddr); ok && shared(fa.X) {
					name := fieldName(fa)
					if guardedFields[name] {
						ev[ins] = append(ev[ins], lockEvent{kind: "write", field: name, ins: ins})
					}
					if immutableFields[name] {
						ev[ins] = append(ev[ins], lockEvent{kind: "immut", field: name, ins: ins})
					}
				}
			case *ssa.RunDefers:
				ev[ins] = append(ev[ins], lockEvent{kind: "rundefers", ins: ins})
			}
			call, isCall := ins.(ssa.CallInstruction)
			if !isCall {
				continue
			}
			com := call.Common()
			_, isDefer := ins.(*ssa.Defer)
			if com.IsInvoke() {
				if fld, ok := loadedFrom[com.Value]; ok && writeMethods[com.Method.Name()] {
					ev[ins] = append(ev[ins], lockEvent{kind: "write", field: fld + "." + com.Method.Name(), ins: ins})
				}
				continue
			}
			callee := com.StaticCallee()
			if callee == nil {
				// closure call value(...)
				continue
			}
			if callee.Pkg != nil && callee.Pkg.Pkg.Path() == "sync" && len(com.Args) > 0 && lockVal[com.Args[0]] {
				k := ""
				switch callee.Name() {
				case "Lock":
					k = "acquireW"
				case "RLock":
					k = "acquireR"
				case "Unlock":
					k = "releaseW"
				case "RUnlock":
					k = "releaseR"
				}
				if k != "" {
					if isDefer {
						k = strings.Replace(k, "release", "defer", 1)
					}
					ev[ins] = append(ev[ins], lockEvent{kind: k, ins: ins})
				}
				continue
			}
			// a call into the package that passes the shared forest (receiver, argument or captured)
			if callee.Pkg == c.l.pkg || (callee.Origin() != nil && callee.Origin().Pkg == c.l.pkg) {
				passes := false
				for _, a := range com.Args {
					if shared(a) {
						passes = true
					}
				}
				if passes {
					ev[ins] = append(ev[ins], lockEvent{kind: "call", callee: callee, ins: ins})
				}
			}
		}
	}
	// closures created here run synchronously inside the callee they are passed to (ForEach, sort): treat
	// the creation as a call of the closure in the current mode
	for _, b := range f.Blocks {
		for _, ins := range b.Instrs {
			if mc, ok := ins.(*ssa.MakeClosure); ok {
				fn := mc.Fn.(*ssa.Function)
				for _, bd := range mc.Bindings {
					if shared(bd) || sharedAddr(bd) {
						ev[ins] = append(ev[ins], lockEvent{kind: "call", callee: fn, ins: ins})
						break
					}
				}
			}
		}
	}
	return ev
}

// sharedAddr: the binding is the address of the variable holding the shared pointer (captured by reference).
func sharedAddr(v ssa.Value) bool {
	if p, ok := v.Type().(*types.Pointer); ok {
		return isMapPollardPtr(p.Elem())
	}
	return false
}

func fieldName(fa *ssa.FieldAddr) string {
	st := fa.X.Type().Underlying().(*types.Pointer).Elem().Underlying().(*types.Struct)
	return st.Field(fa.Field).Name()
}

func (c *lockChecker) oblige(f *ssa.Function, kind, desc string, ins ssa.Instruction, ok bool, detail string) {
	key := funcKey(f)
	c.ord[key+"."+kind]++
	o := Obligation{Name: fmt.Sprintf("%s.lock.%s.%d", key, kind, c.ord[key+"."+kind]), Func: key, Kind: "lock-" + kind, Desc: desc, Status: "proved", Detail: detail}
	if ins != nil {
		o.Pos = c.l.pos(ins.Pos())
	}
	if !ok {
		o.Status = "failed"
	}
	c.rep.Obligations = append(c.rep.Obligations, o)
}

func checkLocks(l *loaded) *Report {
	c := &lockChecker{l: l, sum: map[*ssa.Function]*lockSummary{}, rep: &Report{Tool: "perm lock", Modes: map[string]string{}}, ord: map[string]int{}}
	// functions that touch the shared forest: methods of *MapPollard and their closures
	for _, f := range l.allFuncs() {
		root := f
		for root.Parent() != nil {
			root = root.Parent()
		}
		if recv := root.Signature.Recv(); recv != nil && isMapPollardPtr(recv.Type()) {
			c.funcs = append(c.funcs, f)
		}
	}
	evs := map[*ssa.Function]map[ssa.Instruction][]lockEvent{}
	for _, f := range c.funcs {
		evs[f] = c.events(f)
		s := &lockSummary{}
		for _, es := range evs[f] {
			for _, e := range es {
				if e.kind == "acquireW" {
					s.acquires = mW
				}
				if e.kind == "acquireR" && s.acquires < mR {
					s.acquires = mR
				}
			}
		}
		for _, cl := range l.other[funcKey(f)] {
			if strings.HasPrefix(cl, "acquires ") || strings.HasPrefix(cl, "lock:") {
				s.declared = cl
			}
		}
		c.sum[f] = s
	}
	// inferred need of the non-acquiring functions (fixpoint)
	changed := true
	for changed {
		changed = false
		for _, f := range c.funcs {
			s := c.sum[f]
			if s.acquires != mNone {
				continue
			}
			need := s.need
			for _, es := range evs[f] {
				for _, e := range es {
					switch e.kind {
					case "read":
						if need < mR {
							need = mR
						}
					case "write":
						need = mW
					case "call":
						if cs := c.sum[e.callee]; cs != nil && cs.acquires == mNone && cs.need > need {
							need = cs.need
						}
					}
				}
			}
			if need != s.need {
				s.need = need
				changed = true
			}
		}
	}
	// check every function against its (declared or inferred) contract
	for _, f := range c.funcs {
		s := c.sum[f]
		key := funcKey(f)
		c.rep.Functions = append(c.rep.Functions, key)
		entry := s.need
		contract := "lock: " + modeName(s.need) + " (inferred)"
		if s.acquires != mNone {
			entry = mNone
			contract = "acquires " + modeName(s.acquires) + " (inferred)"
		}
		if s.declared != "" {
			want := strings.TrimSuffix(contract, " (inferred)")
			c.oblige(f, "declared", "declared mode contract `"+s.declared+"` is the least mode the body needs", nil, normalize(s.declared) == normalize(want), "body needs: "+want)
			contract = s.declared
		}
		c.rep.Modes[key] = contract
		// exported methods are called by users holding nothing
		if f.Parent() == nil && f.Object() != nil && f.Object().Exported() {
			c.oblige(f, "exported", "an exported method is callable with no lock held: it acquires the lock itself or touches no guarded state", nil, s.acquires != mNone || s.need == mNone,
				fmt.Sprintf("does not acquire but needs mode %s", modeName(s.need)))
		}
		c.flow(f, evs[f], entry)
	}
	sort.Strings(c.rep.Functions)
	c.rep.Assumptions = []string{
		"sync.RWMutex provides mutual exclusion and happens-before (trusted)",
		"user-supplied Nodes/CachedLeaves implementations are only touched through the MapPollard",
		"callers do not access the exported fields of a shared MapPollard directly",
		"closures passed to ForEach / sort run synchronously in the mode of their creation site",
		"a MapPollard under construction (local value in NewMapPollard*) is not yet shared",
	}
	return c.rep
}

func normalize(s string) string { return strings.Join(strings.Fields(strings.ReplaceAll(s, ":", ": ")), " ") }

type flowState struct {
	mode     int
	defers   string // sequence of deferred releases, e.g. "W" or "R"
	ok       bool
	released bool // the critical section is over (an explicit unlock happened)
}

// flow: forward must-analysis of the mode over the CFG.
func (c *lockChecker) flow(f *ssa.Function, ev map[ssa.Instruction][]lockEvent, entry int) {
	in := map[*ssa.BasicBlock]*flowState{}
	in[f.Blocks[0]] = &flowState{mode: entry, ok: true}
	work := []*ssa.BasicBlock{f.Blocks[0]}
	out := map[*ssa.BasicBlock]flowState{}
	visited := map[*ssa.BasicBlock]bool{}
	type pend struct {
		kind, desc, detail string
		ins                ssa.Instruction
		ok                 bool
	}
	results := map[ssa.Instruction][]pend{}
	for len(work) > 0 {
		b := work[0]
		work = work[1:]
		st := *in[b]
		var here []struct {
			ins ssa.Instruction
			p   pend
		}
		for _, ins := range b.Instrs {
			for _, e := range ev[ins] {
				p := pend{ins: ins, ok: true}
				switch e.kind {
				case "acquireW", "acquireR":
					p.kind, p.desc = "acquire", "the lock is acquired once, and only when not already held (one critical section per call: no re-entrance, no self-deadlock, no torn read across two sections)"
					p.ok = st.mode == mNone && !st.released
					p.detail = "mode before: " + modeName(st.mode)
					if st.released {
						p.detail += " (the lock was already released once in this call: a second critical section)"
					}
					if e.kind == "acquireW" {
						st.mode = mW
					} else {
						st.mode = mR
					}
				case "releaseW", "releaseR":
					p.kind, p.desc = "release", "the lock is released in the mode it is held"
					want := mW
					if e.kind == "releaseR" {
						want = mR
					}
					p.ok = st.mode == want
					p.detail = "mode before: " + modeName(st.mode)
					st.mode = mNone
					st.released = true
				case "deferW":
					st.defers += "W"
					continue
				case "deferR":
					st.defers += "R"
					continue
				case "rundefers":
					for i := len(st.defers) - 1; i >= 0; i-- {
						want := mW
						if st.defers[i] == 'R' {
							want = mR
						}
						p2 := pend{kind: "release", desc: "the deferred unlock releases the mode that is held", ins: ins, ok: st.mode == want, detail: "mode before: " + modeName(st.mode)}
						here = append(here, struct {
							ins ssa.Instruction
							p   pend
						}{ins, p2})
						st.mode = mNone
					}
					st.defers = ""
					continue
				case "read":
					p.kind, p.desc = "read", "read of guarded field "+e.field+" with the lock held (mode >= R)"
					p.ok = st.mode >= mR && st.mode != mBad
					p.detail = "mode: " + modeName(st.mode)
				case "write":
					p.kind, p.desc = "write", "write of guarded state "+e.field+" with the write lock held"
					p.ok = st.mode == mW
					p.detail = "mode: " + modeName(st.mode)
				case "immut":
					p.kind, p.desc = "immutable", "field "+e.field+" of a shared MapPollard is never assigned"
					p.ok = false
				case "call":
					cs := c.sum[e.callee]
					if cs == nil {
						continue
					}
					if cs.acquires != mNone {
						p.kind, p.desc = "call", "call of "+funcKey(e.callee)+" (acquires the lock) only with no lock held"
						p.ok = st.mode == mNone
					} else {
						p.kind, p.desc = "call", fmt.Sprintf("call of %s needs mode %s", funcKey(e.callee), modeName(cs.need))
						p.ok = st.mode >= cs.need && st.mode != mBad
					}
					p.detail = "mode: " + modeName(st.mode)
				}
				here = append(here, struct {
					ins ssa.Instruction
					p   pend
				}{ins, p})
			}
			if _, isRet := ins.(*ssa.Return); isRet {
				p := pend{kind: "return", desc: "at return the lock is in the mode of the function's contract (released if acquired)", ins: ins, ok: st.mode == entry && st.defers == "", detail: "mode at return: " + modeName(st.mode)}
				here = append(here, struct {
					ins ssa.Instruction
					p   pend
				}{ins, p})
			}
		}
		// record (last visit wins: the analysis is monotone towards conflict)
		for _, ins := range b.Instrs {
			delete(results, ins)
		}
		for _, h := range here {
			results[h.ins] = append(results[h.ins], h.p)
		}
		prev, seen := out[b]
		out[b] = st
		visited[b] = true
		if seen && prev == st {
			continue
		}
		for _, s := range b.Succs {
			if cur, ok := in[s]; !ok {
				cp := st
				in[s] = &cp
				work = append(work, s)
			} else if cur.mode != st.mode || cur.defers != st.defers || cur.released != st.released {
				if cur.mode != mBad {
					cur.mode = mBad
					work = append(work, s)
				}
			} else if !visited[s] {
				work = append(work, s)
			}
		}
	}
	// emit in source order
	for _, b := range f.Blocks {
		for _, ins := range b.Instrs {
			for _, p := range results[ins] {
				c.oblige(f, p.kind, p.desc, p.ins, p.ok, p.detail)
			}
		}
	}
}
