"""Bounded complement of the lock-permission proof: the RAC concurrency test under the race detector."""
import os, re
from stages import rac


def run(pid, tier, seed, stage, work, repo, verif, env):
    test = stage.get("test", "TestRAC_" + pid)
    import subprocess, json, time
    os.makedirs(os.path.join(work, "race"), exist_ok=True)
    out = os.path.join(work, "race", test + ".json")
    e = dict(env, VERIF_RAC_OUT=out, VERIF_TIER=tier, VERIF_SEED=str(seed), CGO_ENABLED="1")
    cmd = ["go", "test", "-race", "-tags", "verif", "-overlay", rac.overlay(os.path.join(work, "race"), repo, verif), "-vet=off", "-count=1",
           "-timeout", "240s", "-run", "^%s$" % test, "."]
    t0 = time.time()
    try:
        p = subprocess.run(cmd, cwd=repo, env=e, stdout=subprocess.PIPE, stderr=subprocess.STDOUT, text=True, timeout=300)
        log = p.stdout
    except subprocess.TimeoutExpired as ex:
        log = (ex.stdout or "")
        if isinstance(log, bytes):
            log = log.decode("utf-8", "replace")
        log += "\n[driver timeout]"
    viol = []
    if "-race is only supported" in log or "requires cgo" in log or "C compiler" in log:
        return {"violations": [], "coverage": {"race_detector": "unavailable in this sandbox: " + log[-200:]}, "assumptions": ["race detector run skipped (unavailable)"]}
    races = re.findall(r"WARNING: DATA RACE[\s\S]*?(?:\n\n|==================)", log)
    for r in races[:3]:
        fn = re.findall(r"utreexo\.\(\*MapPollard\)\.(\w+)\(\)", r)
        viol.append({"name": "MapPollard.race." + (fn[0] if fn else "unknown"), "kind": "race", "detail": "data race reported by the race detector:\n" + r[:1500],
                     "input": {"test": test}, "confirmed": True, "replay_kind": "race", "test": test})
    res = None
    if os.path.exists(out):
        res = json.load(open(out))
        for v in res.get("violations") or []:
            viol.append({"name": v["clause"], "kind": "rac", "detail": "observed %s ; expected %s" % (v["observed"], v["expected"]), "input": v["input"],
                         "confirmed": True, "replay_kind": "rac", "test": test})
    elif not races:
        if "[driver timeout]" in log or "test timed out" in log or "panic: test timed out" in log:
            viol.append({"name": "MapPollard.concurrent.completes", "kind": "race", "confirmed": True, "replay_kind": "race", "test": test, "input": {"test": test},
                         "detail": "the concurrent run (one writer, three readers) did not complete: deadlock or livelock\n" + log[-1500:]})
        elif "build failed" in log or "cannot find" in log:
            return {"infra_error": "race harness did not build:\n" + log[-2000:]}
        else:
            viol.append({"name": "MapPollard.concurrent.completes", "kind": "race", "confirmed": True, "replay_kind": "race", "test": test, "input": {"test": test},
                         "detail": "the concurrent run crashed:\n" + log[-1500:]})
    cov = {"race_runs": 1, "race_reports": len(races), "race_cmd": " ".join(cmd), "race_wall_s": round(time.time() - t0, 1)}
    if res:
        cov.update({"evaluations": res["evaluations"], "distinct_nontrivial": res["distinct_nontrivial"], "rule": res["rule"], "samples": res.get("samples") or []})
    return {"violations": viol, "coverage": cov}
