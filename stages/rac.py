"""Runtime-contract (bounded) tier: compiles /verif/rac/*_test.go into package utreexo with
`go test -tags verif -overlay` (nothing is written to /repo) and runs one TestRAC_<id> function."""
import glob, json, os, subprocess, time


def overlay(work, repo, verif):
    ov = {"Replace": {}}
    for f in sorted(glob.glob(os.path.join(verif, "rac", "*_test.go"))):
        ov["Replace"][os.path.join(repo, os.path.basename(f))] = f
    p = os.path.join(work, "rac_overlay.json")
    with open(p, "w") as fh:
        json.dump(ov, fh)
    return p


def run_test(test, work, repo, verif, env, tier, seed, timeout, extra_env=None):
    os.makedirs(work, exist_ok=True)
    out = os.path.join(work, test + ".json")
    e = dict(env, VERIF_RAC_OUT=out, VERIF_TIER=tier, VERIF_SEED=str(seed))
    e.update(extra_env or {})
    cmd = ["go", "test", "-tags", "verif", "-overlay", overlay(work, repo, verif), "-vet=off", "-count=1",
           "-timeout", "%ds" % timeout, "-run", "^%s$" % test, "."]
    t0 = time.time()
    try:
        p = subprocess.run(cmd, cwd=repo, env=e, stdout=subprocess.PIPE, stderr=subprocess.STDOUT, text=True, timeout=timeout + 60)
        log, rc = p.stdout, p.returncode
    except subprocess.TimeoutExpired as ex:
        log, rc = (ex.stdout or "") + "\n[driver timeout]", 124
    res = None
    if os.path.exists(out):
        with open(out) as fh:
            res = json.load(fh)
    return rc, log, res, time.time() - t0, cmd


def run(pid, tier, seed, stage, work, repo, verif, env):
    test = stage.get("test", "TestRAC_" + pid)
    timeout = stage.get("timeout", {}).get(tier, 300 if tier == "quick" else 3000)
    rc, log, res, secs, cmd = run_test(test, os.path.join(work, "rac"), repo, verif, env, tier, seed, timeout)
    if res is None:
        if "build failed" in log or "cannot" in log[:2000] and rc != 0 and "panic" not in log:
            return {"infra_error": "RAC harness did not build/run:\n" + log[-3000:]}
        # the harness itself crashed (a panic outside safely()) or timed out: report as a violation of "no panic / returns"
        return {"violations": [{"name": test + ".completes", "kind": "rac", "detail": "the bounded contract run did not complete: " + log[-1500:],
                                "input": None, "confirmed": True, "replay_kind": "rac", "test": test}], "coverage": {}}
    viol = []
    for v in (res.get("violations") or []):
        viol.append({"name": v["clause"], "kind": "rac", "detail": "observed %s ; expected %s" % (v["observed"], v["expected"]),
                     "input": v["input"], "confirmed": True, "replay_kind": "rac", "test": test})
    cov = {
        "evaluations": res["evaluations"], "distinct_nontrivial": res["distinct_nontrivial"], "rule": res["rule"],
        "samples": res.get("samples") or [], "exhaustive": res.get("exhaustive", False),
        "bounded_contracts": [{"clause": k, "evaluations": n} for k, n in sorted(res.get("evaluations_per_clause", {}).items())],
        "rac_scope": res.get("scope", ""), "rac_cmd": " ".join(cmd), "rac_wall_s": round(secs, 1),
    }
    return {"violations": viol, "coverage": cov, "assumptions": stage.get("assumptions", [])}


def replay(v, work, repo, verif, env):
    inp = v.get("input") or {}
    hist = inp.get("history") if isinstance(inp, dict) else None
    extra = {}
    if hist is not None:
        extra["VERIF_RAC_REPLAY_HISTORY"] = hist
    rc, log, res, secs, cmd = run_test(v["test"], os.path.join(work, "rac"), repo, verif, env, "quick", 1, 300, extra)
    print(" ".join(cmd))
    if res is None:
        print(log[-3000:])
        return 1
    hit = [x for x in (res.get("violations") or []) if x["clause"] == v["name"]]
    for x in hit[:3]:
        print("REPLAYED clause=%s input=%s observed=%s expected=%s" % (x["clause"], json.dumps(x["input"]), x["observed"], x["expected"]))
    print("replay: real code %s the clause" % ("FAILS" if hit else "does not fail"))
    return 1 if hit else 0
