"""Ghost-permission tier (G): runs /verif/bin/perm lock|own on /repo's current tree."""
import json, os, subprocess


def run(pid, tier, seed, stage, work, repo, verif, env):
    mode = stage["mode"]
    out = os.path.join(work, "perm_%s.json" % mode)
    cmd = [os.path.join(verif, "bin", "perm"), mode, "-repo", repo, "-out", out]
    try:
        p = subprocess.run(cmd, stdout=subprocess.PIPE, stderr=subprocess.STDOUT, text=True, timeout=300, env=env)
    except subprocess.TimeoutExpired:
        return {"infra_error": "perm timed out"}
    if not os.path.exists(out):
        return {"infra_error": "perm failed:\n" + p.stdout[-3000:]}
    rep = json.load(open(out))
    viol = []
    nob = len(rep["obligations"])
    ok = 0
    for o in rep["obligations"]:
        if o["status"] == "proved":
            ok += 1
        else:
            viol.append({"name": o["name"], "kind": "perm-" + mode, "detail": o["desc"] + " -- " + o.get("detail", "") + " [" + o.get("pos", "") + "]",
                         "input": None, "func": o["func"], "confirmed": False})
    cov = {"perm_%s_obligations" % mode: nob, "perm_%s_discharged" % mode: ok, "perm_cmd": " ".join(cmd),
           "perm_functions": rep.get("functions", []), "perm_bounded_sites": rep.get("bounded", [])}
    if mode == "lock":
        cov["lock_mode_contracts"] = rep.get("modes", {})
    cov["_add_obligations"] = nob
    cov["_add_discharged"] = ok
    cov["_add_backend"] = {"dataflow(go/ssa)": ok}
    samples = [{"obligation": o["name"], "desc": o["desc"], "status": o["status"]} for o in rep["obligations"][:6]]
    cov["_add_samples"] = samples
    return {"violations": viol, "coverage": cov, "assumptions": rep.get("assumptions", [])}
